package main

// Renamed locals.  Contracts live in comment-only files beside the code, so a loop invariant or a site assertion
// names the locals of the function by their source names.  A harmless rename of such a local must not be reported
// as a violation: `govc expect` records, for every function under contract, the list of its named locals in
// declaration order with their types (contracts/locals.json); when a contract mentions a name that no longer
// exists, the name is resolved through that record by position — the recorded and the current list are aligned
// on the names they share, and between two shared names a stretch of equal length and equal types is matched
// one to one.  Anything else (a local removed, types changed) stays an unresolved name and fails the binding.
//
// Soundness: the fallback only decides which variable of the real function a contract identifier denotes; every
// obligation is still generated from, and proved about, the current code.

import (
	"encoding/json"
	"fmt"
	"go/ast"
	"go/types"
	"os"
	"path/filepath"
	"sort"
	"strings"

	"golang.org/x/tools/go/ssa"
)

type localSig struct {
	Name string `json:"n"`
	Type string `json:"t"`
}

type localsFile map[string][]localSig

// namedLocals lists the variables a function body declares (parameters, results and the bodies of nested function
// literals excluded), in source order.
func (w *World) namedLocals(fn *ssa.Function) []localSig {
	syn := fn.Syntax()
	var body *ast.BlockStmt
	switch n := syn.(type) {
	case *ast.FuncDecl:
		body = n.Body
	case *ast.FuncLit:
		body = n.Body
	}
	if body == nil || fn.Pkg == nil {
		return nil
	}
	var info *types.Info
	for _, p := range w.pkgs {
		if p.Types == fn.Pkg.Pkg {
			info = p.TypesInfo
		}
	}
	if info == nil {
		return nil
	}
	var out []localSig
	ast.Inspect(body, func(n ast.Node) bool {
		switch x := n.(type) {
		case *ast.FuncLit:
			return false
		case *ast.Ident:
			if x.Name == "_" {
				return true
			}
			if v, ok := info.Defs[x].(*types.Var); ok && !v.IsField() {
				out = append(out, localSig{Name: x.Name, Type: typeKey(v.Type())})
			}
		}
		return true
	})
	return out
}

// contractFunctions: the functions whose locals a contract may mention — every function under a repository
// contract and the functions enclosing it (a closure's contract may name captured variables).
func (w *World) contractFunctions() map[string]*ssa.Function {
	out := map[string]*ssa.Function{}
	for n, c := range w.contracts {
		if c.Assumed {
			continue
		}
		fn := w.funcOf(n)
		for fn != nil {
			out[nameOf(fn)] = fn
			fn = fn.Parent()
		}
	}
	return out
}

func (w *World) writeLocals(verif string) (int, error) {
	rec := localsFile{}
	for n, fn := range w.contractFunctions() {
		if l := w.namedLocals(fn); len(l) > 0 {
			rec[n] = l
		}
	}
	b, _ := json.MarshalIndent(rec, "", " ")
	return len(rec), os.WriteFile(filepath.Join(verif, "contracts", "locals.json"), append(b, '\n'), 0o644)
}

// loadLocalAliases computes, per function, recorded name -> current name for the recorded locals that no longer
// exist under their name.
func (w *World) loadLocalAliases(verif string) {
	w.localAlias = map[*ssa.Function]map[string]string{}
	b, err := os.ReadFile(filepath.Join(verif, "contracts", "locals.json"))
	if err != nil {
		return
	}
	var rec localsFile
	if json.Unmarshal(b, &rec) != nil {
		return
	}
	w.recLocals = rec
	fns := w.contractFunctions()
	var names []string
	for n := range fns {
		names = append(names, n)
	}
	sort.Strings(names)
	for _, n := range names {
		old, ok := rec[n]
		if !ok {
			continue
		}
		m := alignLocals(old, w.namedLocals(fns[n]))
		if len(m) > 0 {
			w.localAlias[fns[n]] = m
			var ks []string
			for k := range m {
				ks = append(ks, k)
			}
			sort.Strings(ks)
			for _, k := range ks {
				w.renamedLocals = append(w.renamedLocals, shortName(n)+": "+k+" -> "+m[k])
			}
		}
	}
}

// alignLocals matches recorded locals that have disappeared to current locals that are new, by position between
// the names both lists share.
func alignLocals(old, now []localSig) map[string]string {
	inNow := map[string]bool{}
	for _, l := range now {
		inNow[l.Name] = true
	}
	inOld := map[string]bool{}
	for _, l := range old {
		inOld[l.Name] = true
	}
	// anchors: longest common subsequence of (name, type) pairs
	n, m := len(old), len(now)
	lcs := make([][]int, n+1)
	for i := range lcs {
		lcs[i] = make([]int, m+1)
	}
	for i := n - 1; i >= 0; i-- {
		for j := m - 1; j >= 0; j-- {
			if old[i] == now[j] {
				lcs[i][j] = lcs[i+1][j+1] + 1
			} else if lcs[i+1][j] >= lcs[i][j+1] {
				lcs[i][j] = lcs[i+1][j]
			} else {
				lcs[i][j] = lcs[i][j+1]
			}
		}
	}
	out := map[string]string{}
	ambiguous := map[string]bool{}
	flush := func(a, b []localSig) {
		// a stretch between two anchors: keep only names that vanished / appeared, then match one to one
		var va, vb []localSig
		for _, l := range a {
			if !inNow[l.Name] {
				va = append(va, l)
			}
		}
		for _, l := range b {
			if !inOld[l.Name] {
				vb = append(vb, l)
			}
		}
		// the order-preserving, type-respecting ways of finding the vanished names among the new ones: the
		// match is taken only if there is exactly one
		var found [][]int
		var cur []int
		var rec func(i, j int)
		rec = func(i, j int) {
			if len(found) > 1 {
				return
			}
			if i == len(va) {
				found = append(found, append([]int(nil), cur...))
				return
			}
			for k := j; k < len(vb); k++ {
				if vb[k].Type == va[i].Type {
					cur = append(cur, k)
					rec(i+1, k+1)
					cur = cur[:len(cur)-1]
				}
			}
		}
		rec(0, 0)
		if len(va) == 0 || len(found) != 1 {
			return
		}
		for i := range va {
			nn := vb[found[0][i]].Name
			if prev, dup := out[va[i].Name]; dup && prev != nn {
				ambiguous[va[i].Name] = true
			}
			out[va[i].Name] = nn
		}
	}
	i, j, si, sj := 0, 0, 0, 0
	for i < n && j < m {
		if old[i] == now[j] {
			flush(old[si:i], now[sj:j])
			i++
			j++
			si, sj = i, j
		} else if lcs[i+1][j] >= lcs[i][j+1] {
			i++
		} else {
			j++
		}
	}
	flush(old[si:], now[sj:])
	for k := range ambiguous {
		delete(out, k)
	}
	return out
}

// aliasOf: the current name of a recorded local of fn (or of a function enclosing it), "" if there is none.
func (w *World) aliasOf(fn *ssa.Function, name string) string {
	for fn != nil {
		if a, ok := w.localAlias[fn][name]; ok {
			return a
		}
		fn = fn.Parent()
	}
	return ""
}

// valueOnlyLibrary: an uncontracted function of a library package without side effects on anything the contracts
// speak about, whose receiver and parameters are plain values (no pointer, slice, map, interface, channel or
// function through which it could reach or call back into the program's state).
func valueOnlyLibrary(fn *ssa.Function) bool {
	if fn == nil || fn.Pkg == nil || fn.Signature == nil {
		return false
	}
	excluded, ok := pureLibraryPackages[fn.Pkg.Pkg.Path()]
	if !ok || excluded[fn.Name()] {
		return false
	}
	sig := fn.Signature
	if sig.Variadic() {
		return false
	}
	if r := sig.Recv(); r != nil && !plainValue(r.Type(), 0) {
		return false
	}
	for i := 0; i < sig.Params().Len(); i++ {
		if !plainValue(sig.Params().At(i).Type(), 0) {
			return false
		}
	}
	return true
}

var pureLibraryPackages = map[string]map[string]bool{
	"strings": {}, "strconv": {}, "unicode": {}, "unicode/utf8": {}, "math": {}, "path": {}, "errors": {}, "html": {},
	"net/url": {}, "encoding/hex": {}, "encoding/base64": {},
	"path/filepath": {"Glob": true, "Walk": true, "WalkDir": true, "Abs": true, "EvalSymlinks": true},
	"time":          {"Sleep": true, "After": true, "Tick": true, "NewTimer": true, "NewTicker": true, "AfterFunc": true},
}

func plainValue(t types.Type, depth int) bool {
	if depth > 4 {
		return false
	}
	if n, ok := t.(*types.Named); ok && n.Obj().Pkg() != nil && n.Obj().Pkg().Path() == "time" {
		switch n.Obj().Name() {
		case "Time", "Duration", "Month", "Weekday":
			return true
		}
	}
	switch u := t.Underlying().(type) {
	case *types.Basic:
		return u.Kind() != types.UnsafePointer
	case *types.Struct:
		for i := 0; i < u.NumFields(); i++ {
			if !plainValue(u.Field(i).Type(), depth+1) {
				return false
			}
		}
		return true
	case *types.Array:
		return plainValue(u.Elem(), depth+1)
	}
	return false
}

// smallHelper: a named function of the package under verification, without contract, loop-free, not recursive
// and small enough to be executed in place at a call.
func (f *frame) smallHelper(callee *ssa.Function) bool {
	if callee == nil || callee.Parent() != nil || len(callee.Blocks) == 0 || f.fn == nil || callee.Pkg == nil {
		return false
	}
	top := f.fn
	for top.Parent() != nil {
		top = top.Parent()
	}
	if top.Pkg == nil || callee.Pkg != top.Pkg || callee == top {
		return false
	}
	n := 0
	for _, b := range callee.Blocks {
		for _, in := range b.Instrs {
			if _, dbg := in.(*ssa.DebugRef); !dbg {
				n++
			}
		}
		for _, s := range b.Succs {
			if s.Index <= b.Index && s.Dominates(b) {
				return false // a loop
			}
		}
		for _, in := range b.Instrs {
			switch x := in.(type) {
			case *ssa.Go, *ssa.Select, *ssa.Defer:
				return false
			case ssa.CallInstruction:
				if x.Common().StaticCallee() == callee {
					return false
				}
			}
		}
	}
	return n <= 200
}

// typeKey prints a type without the parameter names of function types (renaming a closure's parameters must not
// make the variable that holds the closure look like a different variable).
func typeKey(t types.Type) string {
	q := func(p *types.Package) string { return p.Path() }
	tuple := func(tp *types.Tuple) string {
		var parts []string
		for i := 0; i < tp.Len(); i++ {
			parts = append(parts, typeKey(tp.At(i).Type()))
		}
		return strings.Join(parts, ",")
	}
	switch u := t.(type) {
	case *types.Signature:
		v := ""
		if u.Variadic() {
			v = "..."
		}
		return "func" + v + "(" + tuple(u.Params()) + ")(" + tuple(u.Results()) + ")"
	case *types.Pointer:
		return "*" + typeKey(u.Elem())
	case *types.Slice:
		return "[]" + typeKey(u.Elem())
	case *types.Array:
		return fmt.Sprintf("[%d]%s", u.Len(), typeKey(u.Elem()))
	case *types.Map:
		return "map[" + typeKey(u.Key()) + "]" + typeKey(u.Elem())
	case *types.Chan:
		return fmt.Sprintf("chan%d %s", u.Dir(), typeKey(u.Elem()))
	}
	return types.TypeString(t, q)
}
