package main

// Loading /repo, building SSA, indexing functions, contracts and spec definitions.

import (
	"fmt"
	"go/token"
	"go/types"
	"os"
	"path/filepath"
	"sort"
	"strings"

	"golang.org/x/tools/go/packages"
	"golang.org/x/tools/go/ssa"
	"golang.org/x/tools/go/ssa/ssautil"
)

type World struct {
	repo                string
	fset                *token.FileSet
	pkgs                []*packages.Package
	prog                *ssa.Program
	spkgs               map[string]*ssa.Package // by path
	tpkgs               map[string]*types.Package
	funcs               map[string]*ssa.Function // absolute name -> function (all functions incl. anonymous)
	contracts           map[string]*Contract     // absolute function name -> contract
	defs                map[string]*SpecDef
	defOrder            []string
	so                  *Sorts
	heapSorts           map[string]string
	mutGlobal           map[*ssa.Global]bool
	notes               []string
	contractFilesInRepo map[string]string // pkg -> "repo" | "mirror"
	assumedUsed         map[string]bool
	aliases             map[string]map[string]string // package path -> import alias -> import path
	genericIdx          map[string]*ssa.Function
	curProp             string                              // the property whose check is being generated ("" in verify/dump mode: everything is checked)
	insliceUsers        map[string]bool                     // packages whose contracts use the builtin inslice (append lemmas are emitted there)
	localAlias          map[*ssa.Function]map[string]string // recorded local name -> current name (locals.go)
	renamedLocals       []string
	renamedFuncs        []string
	movedLoops          []string
	recLoops            map[string]int // loops per function under contract when the contracts were last committed
	recLocals           localsFile
	allFuncs            []*ssa.Function
}

const contractFileName = "zz_contracts_verif.go"

func loadWorld(repo, verif string) (*World, error) {
	w := &World{repo: repo, spkgs: map[string]*ssa.Package{}, tpkgs: map[string]*types.Package{}, funcs: map[string]*ssa.Function{},
		contracts: map[string]*Contract{}, defs: map[string]*SpecDef{}, so: newSorts(), heapSorts: map[string]string{},
		mutGlobal: map[*ssa.Global]bool{}, contractFilesInRepo: map[string]string{}, assumedUsed: map[string]bool{}}
	w.heapSorts["A"] = "(Array Ref Bool)"
	cfg := &packages.Config{Mode: packages.LoadSyntax, Dir: repo, BuildFlags: []string{"-tags=verif"}, Tests: false,
		Env: append(os.Environ(), "GOFLAGS=-mod=mod", "GOPROXY=off", "GOSUMDB=off", "GOTOOLCHAIN=local")}
	pkgs, err := packages.Load(cfg, "./internal/...", "./cmd/...")
	if err != nil {
		return nil, err
	}
	nerr := 0
	for _, p := range pkgs {
		for _, e := range p.Errors {
			fmt.Fprintf(os.Stderr, "load error: %v\n", e)
			nerr++
		}
	}
	if nerr > 0 {
		return nil, fmt.Errorf("%d package load errors", nerr)
	}
	w.aliases = map[string]map[string]string{}
	for _, p := range pkgs {
		for _, f := range p.Syntax {
			for _, im := range f.Imports {
				if im.Name != nil && im.Name.Name != "_" && im.Name.Name != "." {
					if w.aliases[p.PkgPath] == nil {
						w.aliases[p.PkgPath] = map[string]string{}
					}
					w.aliases[p.PkgPath][im.Name.Name] = strings.Trim(im.Path.Value, "\"")
				}
			}
		}
	}
	w.pkgs = pkgs
	if len(pkgs) > 0 {
		w.fset = pkgs[0].Fset
	}
	prog, spkgs := ssautil.Packages(pkgs, ssa.InstantiateGenerics|ssa.GlobalDebug)
	prog.Build()
	w.prog = prog
	for i, sp := range spkgs {
		if sp == nil {
			continue
		}
		w.spkgs[pkgs[i].PkgPath] = sp
		w.tpkgs[pkgs[i].PkgPath] = pkgs[i].Types
	}
	// index every function
	for fn := range ssautil.AllFunctions(prog) {
		w.funcs[fn.String()] = fn
		w.allFuncs = append(w.allFuncs, fn)
	}
	// imported packages' types (for assumed contracts and qualified identifiers)
	for _, p := range pkgs {
		for path, ip := range p.Imports {
			if _, ok := w.tpkgs[path]; !ok && ip.Types != nil {
				w.tpkgs[path] = ip.Types
			}
		}
	}
	// mutable globals: any store outside the package initialiser
	for fn := range ssautil.AllFunctions(prog) {
		if fn.Name() == "init" || strings.HasPrefix(fn.Name(), "init#") {
			continue
		}
		for _, b := range fn.Blocks {
			for _, in := range b.Instrs {
				if st, ok := in.(*ssa.Store); ok {
					if g, ok := st.Addr.(*ssa.Global); ok {
						w.mutGlobal[g] = true
					}
				}
				// address of a global escaping: FieldAddr/IndexAddr of global used in a store
				if fa, ok := in.(*ssa.FieldAddr); ok {
					if g, ok := fa.X.(*ssa.Global); ok {
						_ = g // struct-typed globals: treated as mutable if any field store exists below
						for _, ref := range *fa.Referrers() {
							if st, ok := ref.(*ssa.Store); ok && st.Addr == fa {
								w.mutGlobal[g] = true
							}
						}
					}
				}
			}
		}
	}
	// contracts: repo files (guarded, comment-only) with fallback to the mirror under /verif/contracts/repo
	for _, p := range pkgs {
		if !strings.HasPrefix(p.PkgPath, repoMod) {
			continue
		}
		rel := strings.TrimPrefix(strings.TrimPrefix(p.PkgPath, repoMod), "/")
		inRepo := filepath.Join(repo, rel, contractFileName)
		mirror := filepath.Join(verif, "contracts", "repo", rel, contractFileName)
		var src []byte
		var from, file string
		rb, rerr := os.ReadFile(inRepo)
		mb, merr := os.ReadFile(mirror)
		switch {
		case merr == nil && rerr == nil && string(rb) == string(mb):
			src, from, file = mb, "in /repo, identical to /verif mirror", mirror
		case merr == nil && rerr == nil:
			src, from, file = mb, "in /repo but differs from /verif mirror (mirror used)", mirror
		case merr == nil:
			src, from, file = mb, "missing in /repo (mirror used)", mirror
		case rerr == nil:
			src, from, file = rb, "only in /repo", inRepo
		default:
			continue
		}
		w.contractFilesInRepo[p.PkgPath] = from
		if strings.Contains(string(src), "inslice(") {
			if w.insliceUsers == nil {
				w.insliceUsers = map[string]bool{}
			}
			w.insliceUsers[p.PkgPath] = true
		}
		sf, err := parseSpecText(string(src), p.PkgPath, file, false)
		if err != nil {
			return nil, err
		}
		if err := w.addSpecFile(sf); err != nil {
			return nil, err
		}
	}
	// assumed contracts
	adir := filepath.Join(verif, "contracts", "assumed")
	ents, _ := os.ReadDir(adir)
	var names []string
	for _, e := range ents {
		if strings.HasSuffix(e.Name(), ".spec") {
			names = append(names, e.Name())
		}
	}
	sort.Strings(names)
	for _, n := range names {
		b, err := os.ReadFile(filepath.Join(adir, n))
		if err != nil {
			return nil, err
		}
		// first line may carry "//@ package <path>" to give a scope for type names
		pkg := ""
		for _, l := range strings.Split(string(b), "\n") {
			t := strings.TrimSpace(l)
			if strings.HasPrefix(t, "//@ package ") {
				pkg = strings.TrimSpace(t[len("//@ package "):])
				break
			}
		}
		src := strings.ReplaceAll(string(b), "//@ package ", "// package ")
		sf, err := parseSpecText(src, pkg, filepath.Join(adir, n), true)
		if err != nil {
			return nil, err
		}
		if err := w.addSpecFile(sf); err != nil {
			return nil, err
		}
	}
	w.expandGhostWildcards()
	w.recoverRenamedFunctions(verif)
	w.loadLocalAliases(verif)
	return w, nil
}

// expandGhostWildcards: `modifies ghost obs.*` stands for every declared ghost whose name starts with "obs.".
func (w *World) expandGhostWildcards() {
	var ghosts []string
	for _, n := range w.defOrder {
		if d := w.defs[n]; d.Kind == "ghost" {
			ghosts = append(ghosts, n)
		}
	}
	expand := func(ms []ModLoc) []ModLoc {
		var out []ModLoc
		for _, m := range ms {
			if m.Ghost != "" && strings.HasSuffix(m.Ghost, "*") {
				pre := strings.TrimSuffix(m.Ghost, "*")
				for _, g := range ghosts {
					if strings.HasPrefix(g, pre) {
						out = append(out, ModLoc{Ghost: g, Src: "ghost " + g})
					}
				}
				continue
			}
			out = append(out, m)
		}
		return out
	}
	for _, c := range w.contracts {
		c.Modifies = expand(c.Modifies)
		c.SpawnMod = expand(c.SpawnMod)
		for k, v := range c.LoopMod {
			c.LoopMod[k] = expand(v)
		}
	}
}

func (w *World) addSpecFile(sf *SpecFile) error {
	for _, d := range sf.Defs {
		if old, ok := w.defs[d.Name]; ok {
			return fmt.Errorf("%s:%d: %s redefined (first at %s:%d)", d.File, d.Line, d.Name, old.File, old.Line)
		}
		w.defs[d.Name] = d
		w.defOrder = append(w.defOrder, d.Name)
	}
	for _, c := range sf.Contracts {
		abs := c.Func
		if !c.Assumed || (sf.Pkg != "" && !strings.Contains(c.Func, "/") && !isStdQualified(c.Func)) {
			abs = absName(c.Func, sf.Pkg)
		}
		if c.Variant != "" {
			abs += "@" + c.Variant
		}
		if old, ok := w.contracts[abs]; ok {
			return fmt.Errorf("%s:%d: contract for %s redefined (first at %s:%d)", c.File, c.Line, abs, old.File, old.Line)
		}
		w.contracts[abs] = c
	}
	return nil
}

// isStdQualified: names like "strings.TrimSpace" or "(*os.File).Sync" written absolutely in assumed files.
func isStdQualified(name string) bool {
	n := strings.TrimLeft(name, "(*")
	i := strings.Index(n, ".")
	if i < 0 {
		return false
	}
	first := n[:i]
	return first != "" && first[0] >= 'a' && first[0] <= 'z'
}

// absName turns a package-relative function name ("(*Node).setStatus", "isReady", "(*Scheduler).Schedule$1")
// into the absolute form ssa prints.
func absName(rel, pkg string) string {
	if strings.HasPrefix(rel, "(*") {
		return "(*" + pkg + "." + rel[2:]
	}
	if strings.HasPrefix(rel, "(") {
		return "(" + pkg + "." + rel[1:]
	}
	return pkg + "." + rel
}

func relName(abs, pkg string) string {
	return strings.ReplaceAll(abs, pkg+".", "")
}

// stripTypeArgs removes generic instantiation brackets: (*p.Cache[*q.T]).Load[*q.T] -> (*p.Cache).Load
func stripTypeArgs(name string) string {
	var b strings.Builder
	depth := 0
	for i := 0; i < len(name); i++ {
		switch name[i] {
		case '[':
			depth++
		case ']':
			depth--
		default:
			if depth == 0 {
				b.WriteByte(name[i])
			}
		}
	}
	return b.String()
}

func (w *World) contractOf(name string) *Contract {
	c := w.contracts[name]
	if c == nil && strings.Contains(name, "[") {
		// an instantiation of a generic function is specified by the contract of the generic
		c = w.contracts[stripTypeArgs(name)]
	}
	if c != nil && c.Assumed {
		w.assumedUsed[name] = true
	}
	return c
}

func (w *World) pos(p token.Pos) string {
	if !p.IsValid() {
		return "?"
	}
	ps := w.fset.Position(p)
	f := ps.Filename
	if strings.HasPrefix(f, w.repo+"/") {
		f = f[len(w.repo)+1:]
	}
	return fmt.Sprintf("%s:%d", f, ps.Line)
}

// lookupType evaluates a Go type expression in the scope of a package.
func (w *World) lookupType(expr string, pkgPath string) (types.Type, error) {
	switch expr {
	case "int":
		return types.Typ[types.Int], nil
	case "bool":
		return types.Typ[types.Bool], nil
	case "string":
		return types.Typ[types.String], nil
	case "error":
		return types.Universe.Lookup("error").Type(), nil
	case "any":
		return types.Universe.Lookup("any").Type(), nil
	case "time", "time.Time":
		if tp := w.tpkgs["time"]; tp != nil {
			return tp.Scope().Lookup("Time").Type(), nil
		}
	}
	if tn, ok := types.Universe.Lookup(expr).(*types.TypeName); ok {
		return tn.Type(), nil
	}
	if strings.HasPrefix(expr, "[]") {
		if el, err := w.lookupType(expr[2:], pkgPath); err == nil {
			return types.NewSlice(el), nil
		}
	}
	tp := w.tpkgs[pkgPath]
	if tp == nil {
		// no scope given (assumed contract files): resolve qualified names against every known package
		for _, p := range w.tpkgs {
			tp = p
			break
		}
		if tp == nil {
			return nil, fmt.Errorf("no package scope %q for type %q", pkgPath, expr)
		}
	}
	// qualified names may refer to packages not imported by pkgPath's files: resolve manually
	tv, err := types.Eval(w.fset, tp, token.NoPos, expr)
	if err == nil && tv.IsType() {
		return tv.Type, nil
	}
	// manual fallback: [*]pkg.Name
	ptr := 0
	e := expr
	for strings.HasPrefix(e, "*") {
		ptr++
		e = e[1:]
	}
	if strings.HasPrefix(e, "[]") {
		el, err2 := w.lookupType(e[2:], pkgPath)
		if err2 != nil {
			return nil, err2
		}
		var t types.Type = types.NewSlice(el)
		for ; ptr > 0; ptr-- {
			t = types.NewPointer(t)
		}
		return t, nil
	}
	if i := strings.LastIndex(e, "."); i > 0 {
		q, n := e[:i], e[i+1:]
		if ap, ok := w.aliases[pkgPath][q]; ok {
			if p := w.tpkgs[ap]; p != nil {
				if tn, ok := p.Scope().Lookup(n).(*types.TypeName); ok {
					var t types.Type = tn.Type()
					for ; ptr > 0; ptr-- {
						t = types.NewPointer(t)
					}
					return t, nil
				}
			}
		}
		for path, p := range w.tpkgs {
			if path == q || strings.HasSuffix(path, "/"+q) || p.Name() == q {
				if o := p.Scope().Lookup(n); o != nil {
					if tn, ok := o.(*types.TypeName); ok {
						var t types.Type = tn.Type()
						for ; ptr > 0; ptr-- {
							t = types.NewPointer(t)
						}
						return t, nil
					}
				}
			}
		}
	}
	return nil, fmt.Errorf("cannot resolve type %q in %s: %v", expr, pkgPath, err)
}

// funcOf resolves a contract key (possibly "name@variant") to the SSA function.
func (w *World) funcOf(key string) *ssa.Function {
	if i := strings.LastIndex(key, "@"); i >= 0 {
		key = key[:i]
	}
	if f := w.funcs[key]; f != nil {
		return f
	}
	// a contract on a generic function is bound to (one of) its instantiations
	if w.genericIdx == nil {
		w.genericIdx = map[string]*ssa.Function{}
		var names []string
		for n := range w.funcs {
			if strings.Contains(n, "[") {
				names = append(names, n)
			}
		}
		sort.Strings(names)
		for _, n := range names {
			k := stripTypeArgs(n)
			if _, ok := w.genericIdx[k]; !ok && len(w.funcs[n].Blocks) > 0 {
				w.genericIdx[k] = w.funcs[n]
			}
		}
	}
	return w.genericIdx[key]
}

// interfaceMethodExists: "(pkg/path.Iface).Method" names a method of an interface type that exists.
func (w *World) interfaceMethodExists(abs string) bool {
	if i := strings.LastIndex(abs, "@"); i >= 0 {
		abs = abs[:i]
	}
	if !strings.HasPrefix(abs, "(") {
		return false
	}
	j := strings.Index(abs, ").")
	if j < 0 {
		return false
	}
	tn, m := strings.TrimPrefix(abs[1:j], "*"), abs[j+2:]
	k := strings.LastIndex(tn, ".")
	if k < 0 {
		return false
	}
	p := w.tpkgs[tn[:k]]
	if p == nil {
		return false
	}
	o, ok := p.Scope().Lookup(tn[k+1:]).(*types.TypeName)
	if !ok {
		return false
	}
	it, ok := o.Type().Underlying().(*types.Interface)
	if !ok {
		return false
	}
	for i := 0; i < it.NumMethods(); i++ {
		if it.Method(i).Name() == m {
			return true
		}
	}
	return false
}
