package main

// Go types -> SMT sorts, struct datatypes, zero values, heap keys.

import (
	"fmt"
	"go/types"
	"sort"
	"strings"
)

const repoMod = "github.com/ErdemOzgen/blackdagger"

type Sorts struct {
	names    map[string]string // type string -> mangled
	used     map[string]bool
	structs  map[string]*structInfo // mangled -> info
	order    []string               // declaration order of struct datatypes
	typeIDs  map[string]int
	arrZero  map[string]bool
	zeroDecl []string
}

type structInfo struct {
	name   string
	st     *types.Struct
	fields []string // sorts
	typ    types.Type
}

func newSorts() *Sorts {
	return &Sorts{names: map[string]string{}, used: map[string]bool{}, structs: map[string]*structInfo{}, typeIDs: map[string]int{}, arrZero: map[string]bool{}}
}

func mangle(s string) string {
	var b strings.Builder
	for _, c := range s {
		switch {
		case c >= 'a' && c <= 'z', c >= 'A' && c <= 'Z', c >= '0' && c <= '9', c == '_':
			b.WriteRune(c)
		case c == '*':
			b.WriteString("P")
		case c == '[':
			b.WriteString("L")
		case c == ']':
			b.WriteString("J")
		case c == '.':
			b.WriteString("_")
		case c == '/':
			b.WriteString("_")
		default:
			b.WriteString("_")
		}
	}
	return b.String()
}

func shortTypeString(t types.Type) string {
	return types.TypeString(t, func(p *types.Package) string {
		path := p.Path()
		if strings.HasPrefix(path, repoMod+"/") {
			path = path[len(repoMod)+1:]
			path = strings.TrimPrefix(path, "internal/")
		}
		return path
	})
}

// typeName returns a unique mangled name for a Go type.
func (s *Sorts) typeName(t types.Type) string {
	ts := shortTypeString(t)
	if n, ok := s.names[ts]; ok {
		return n
	}
	m := mangle(ts)
	if len(m) > 60 {
		m = m[:60]
	}
	base := m
	for i := 2; s.used[m]; i++ {
		m = fmt.Sprintf("%s_%d", base, i)
	}
	s.used[m] = true
	s.names[ts] = m
	return m
}

func (s *Sorts) typeID(t types.Type) int {
	ts := types.TypeString(t, nil)
	if id, ok := s.typeIDs[ts]; ok {
		return id
	}
	id := len(s.typeIDs) + 1
	s.typeIDs[ts] = id
	return id
}

func isTimeTime(t types.Type) bool {
	n, ok := t.(*types.Named)
	return ok && n.Obj().Pkg() != nil && n.Obj().Pkg().Path() == "time" && n.Obj().Name() == "Time"
}

func isRepoType(t types.Type) bool {
	n, ok := t.(*types.Named)
	if !ok {
		return true // anonymous struct
	}
	if n.Obj().Pkg() == nil {
		return false
	}
	return strings.HasPrefix(n.Obj().Pkg().Path(), repoMod)
}

// transparentStruct reports whether a struct type is modelled field by field.
func transparentStruct(t types.Type) bool {
	if isTimeTime(t) {
		return false
	}
	if _, ok := t.Underlying().(*types.Struct); !ok {
		return false
	}
	if isRepoType(t) {
		return true
	}
	// a few external struct types whose exported fields are used directly
	if n, ok := t.(*types.Named); ok && n.Obj().Pkg() != nil {
		switch n.Obj().Pkg().Path() + "." + n.Obj().Name() {
		case "net/http.Request", "net/url.URL", "github.com/fsnotify/fsnotify.Event", "os/exec.Cmd", "os.Process", "syscall.SysProcAttr":
			return true
		}
	}
	return false
}

// sortOf maps a Go type to an SMT sort name.
func (s *Sorts) sortOf(t types.Type) string {
	if isTimeTime(t) {
		return "Int"
	}
	switch u := t.Underlying().(type) {
	case *types.Basic:
		switch {
		case u.Info()&types.IsBoolean != 0:
			return "Bool"
		case u.Info()&types.IsInteger != 0:
			return "Int"
		case u.Info()&types.IsString != 0:
			return "String"
		case u.Info()&types.IsFloat != 0:
			return "Real"
		case u.Kind() == types.UnsafePointer:
			return "Ref"
		case u.Kind() == types.UntypedNil:
			return "Ref"
		}
		return "Opq"
	case *types.Pointer, *types.Map, *types.Chan, *types.Signature:
		return "Ref"
	case *types.Slice:
		return "Slice"
	case *types.Interface:
		return "Iface"
	case *types.Struct:
		if !transparentStruct(t) {
			return "Opq"
		}
		return s.structSort(t)
	case *types.Array:
		return "(Array Int " + s.sortOf(u.Elem()) + ")"
	case *types.Tuple:
		return "Opq"
	case *types.TypeParam:
		return "Opq"
	}
	return "Opq"
}

func (s *Sorts) structSort(t types.Type) string {
	name := "S_" + s.typeName(t)
	if _, ok := s.structs[name]; ok {
		return name
	}
	st := t.Underlying().(*types.Struct)
	info := &structInfo{name: name, st: st, typ: t}
	s.structs[name] = info // guard (by-value recursion is impossible in Go)
	for i := 0; i < st.NumFields(); i++ {
		info.fields = append(info.fields, s.sortOf(st.Field(i).Type()))
	}
	s.order = append(s.order, name)
	return name
}

func (s *Sorts) accessor(t types.Type, i int) string {
	return fmt.Sprintf("%s_f%d", s.structSort(t), i)
}

func (s *Sorts) mk(t types.Type) string { return "mk_" + s.structSort(t) }

// zero returns the SMT term for the zero value of t.
func (s *Sorts) zero(t types.Type) string {
	so := s.sortOf(t)
	switch so {
	case "Int":
		return "0"
	case "Bool":
		return "false"
	case "String":
		return "\"\""
	case "Real":
		return "0.0"
	case "Ref":
		return "nil"
	case "Slice":
		return "nilslice"
	case "Iface":
		return "niliface"
	case "Opq":
		return "opqzero"
	}
	if strings.HasPrefix(so, "S_") {
		st := t.Underlying().(*types.Struct)
		if st.NumFields() == 0 {
			return "mk_" + so
		}
		parts := []string{"mk_" + so}
		for i := 0; i < st.NumFields(); i++ {
			parts = append(parts, s.zero(st.Field(i).Type()))
		}
		return "(" + strings.Join(parts, " ") + ")"
	}
	if strings.HasPrefix(so, "(Array Int ") {
		el := t.Underlying().(*types.Array).Elem()
		z := s.zero(el)
		if z == "0" || z == "false" || z == "\"\"" {
			return "((as const " + so + ") " + z + ")"
		}
		return "zeroarr_" + mangle(so)
	}
	return "opqzero"
}

// zeroOfSort gives a default term for a sort string when no Go type is at hand.
func zeroOfSort(so string) string {
	switch so {
	case "Int":
		return "0"
	case "Bool":
		return "false"
	case "String":
		return "\"\""
	case "Real":
		return "0.0"
	case "Ref":
		return "nil"
	case "Slice":
		return "nilslice"
	case "Iface":
		return "niliface"
	}
	return ""
}

// prelude emits the fixed sorts and all struct datatypes registered so far.
// prelude declares the fixed sorts and those struct datatypes that the script body mentions (directly or through
// another declared datatype): a script does not depend on which other functions were translated in the same run.
func (s *Sorts) prelude(body string) string {
	var b strings.Builder
	b.WriteString("(declare-sort Ref 0)\n(declare-const nil Ref)\n(declare-sort Opq 0)\n(declare-const opqzero Opq)\n")
	b.WriteString("(declare-datatypes ((Slice 0)) (((mk_slice (sbase Ref) (soff Int) (slen Int) (scap Int)))))\n")
	b.WriteString("(define-fun nilslice () Slice (mk_slice nil 0 0 0))\n")
	// element index of a slice: an uninterpreted wrapper so that quantified contracts have a clean trigger
	b.WriteString("(declare-fun sidx (Slice Int) Int)\n")
	b.WriteString("(assert (forall ((s Slice) (i Int)) (! (= (sidx s i) (+ (soff s) i)) :pattern ((sidx s i)))))\n")
	b.WriteString("(declare-datatypes ((Iface 0)) (((mk_iface (itag Int) (iref Ref) (iint Int) (istr String) (ibool Bool) (isl Slice)))))\n")
	b.WriteString("(define-fun niliface () Iface (mk_iface 0 nil 0 \"\" false nilslice))\n")
	// struct datatypes in dependency order: a struct registered later may be needed by an earlier one
	// (registration order is post-order of sortOf recursion except for the guard entry) -> sort topologically
	emitted := map[string]bool{}
	var emit func(name string)
	emit = func(name string) {
		if emitted[name] {
			return
		}
		emitted[name] = true
		info := s.structs[name]
		for _, f := range info.fields {
			for dep := range s.structs {
				if f == dep || strings.Contains(f, " "+dep+")") {
					emit(dep)
				}
			}
		}
		if len(info.fields) == 0 {
			fmt.Fprintf(&b, "(declare-datatypes ((%s 0)) (((mk_%s))))\n", name, name)
			return
		}
		fmt.Fprintf(&b, "(declare-datatypes ((%s 0)) (((mk_%s", name, name)
		for i, f := range info.fields {
			fmt.Fprintf(&b, " (%s_f%d %s)", name, i, f)
		}
		b.WriteString("))))\n")
	}
	names := make([]string, 0, len(s.structs))
	for n := range s.structs {
		names = append(names, n)
	}
	sort.Strings(names)
	for _, n := range names {
		if strings.Contains(body, n) {
			emit(n)
		}
	}
	return b.String()
}

func isUnsigned(t types.Type) bool {
	b, ok := t.Underlying().(*types.Basic)
	return ok && b.Info()&types.IsUnsigned != 0
}

func isPointerLike(t types.Type) bool {
	switch t.Underlying().(type) {
	case *types.Pointer, *types.Map, *types.Chan, *types.Signature:
		return true
	}
	return false
}

func derefType(t types.Type) types.Type {
	if p, ok := t.Underlying().(*types.Pointer); ok {
		return p.Elem()
	}
	return nil
}
