package main

import (
	"fmt"
	"go/types"
	"sort"
	"strings"

	"golang.org/x/tools/go/ssa"
)

// Interface refinement.  A contract on an interface method (necessarily `trusted`: there is no body) is what callers
// through the interface rely on.  For every method of the repository that implements such an interface method and
// has a contract of its own, the pair is checked here: under the interface contract's precondition the
// implementation's precondition holds, and the implementation's frame and postconditions imply the interface
// contract's frame and postconditions.  The check is the verification of a one-line body — "call the implementation" —
// against the interface contract, so it reuses the call rule.

type refinePair struct {
	ifaceKey string // absolute contract name of the interface method
	ci       *Contract
	implKey  string
	ct       *Contract
	implFn   *ssa.Function
}

// refinementPairs finds (interface method contract, implementing method contract) pairs.
func (w *World) refinementPairs() []refinePair {
	var out []refinePair
	var keys []string
	for k := range w.contracts {
		keys = append(keys, k)
	}
	sort.Strings(keys)
	for _, ik := range keys {
		ci := w.contracts[ik]
		if ci.Assumed || !strings.HasPrefix(ik, "(") || strings.Contains(ik, "@") {
			continue
		}
		j := strings.Index(ik, ").")
		if j < 0 || strings.HasPrefix(ik, "(*") {
			continue
		}
		tn, m := ik[1:j], ik[j+2:]
		k := strings.LastIndex(tn, ".")
		if k < 0 {
			continue
		}
		p := w.tpkgs[tn[:k]]
		if p == nil {
			continue
		}
		o, ok := p.Scope().Lookup(tn[k+1:]).(*types.TypeName)
		if !ok {
			continue
		}
		it, ok := o.Type().Underlying().(*types.Interface)
		if !ok {
			continue
		}
		for _, tk := range keys {
			ct := w.contracts[tk]
			if ct.Assumed || !strings.HasPrefix(tk, "(") || !strings.HasSuffix(tk, ")."+m) || tk == ik || strings.Contains(tk, "@") {
				continue
			}
			fn := w.funcOf(tk)
			if fn == nil || fn.Signature.Recv() == nil {
				continue
			}
			rt := fn.Signature.Recv().Type()
			if _, isIface := rt.Underlying().(*types.Interface); isIface {
				continue
			}
			if !types.Implements(rt, it) {
				continue
			}
			out = append(out, refinePair{ifaceKey: ik, ci: ci, implKey: tk, ct: ct, implFn: fn})
		}
	}
	return out
}

// verifyRefinement generates the obligations for one pair.
func (w *World) verifyRefinement(rp refinePair) (vc *FnVC, err error) {
	fn, ci, ct := rp.implFn, rp.ci, rp.ct
	vc = w.newVC(fn, ci)
	vc.fnName = "refine:" + vc.fnName + "<:" + relName(rp.ifaceKey, ci.Pkg)
	defer func() {
		if r := recover(); r != nil {
			if e, ok := r.(genError); ok {
				err = fmt.Errorf("%s: %s", vc.fnName, string(e))
				return
			}
			panic(r)
		}
	}()
	f := vc.newFrame(fn)
	f.c = ci
	st := &state{h: map[string]string{}, epoch: 0, havocked: "false"}
	if len(ci.Params) != len(fn.Params) || len(ct.Params) != len(fn.Params) {
		return nil, fmt.Errorf("%s: the two contracts name %d and %d parameters, the method has %d", vc.fnName, len(ci.Params), len(ct.Params), len(fn.Params))
	}
	var args []*sym
	for i, p := range fn.Params {
		s := &sym{t: vc.fresh("p_"+ci.Params[i], w.so.sortOf(p.Type())), typ: p.Type()}
		f.vals[p] = s
		f.names[ci.Params[i]] = s
		vc.wf("true", s.t, p.Type(), st, 0)
		if _, isPtr := p.Type().Underlying().(*types.Pointer); isPtr && !ci.Nullable[ci.Params[i]] {
			vc.assume("true", not(eq(s.t, "nil")))
		}
		args = append(args, s)
	}
	entry := st.clone()
	vc.entrySt = entry
	f.oldSt = entry
	env := f.env(st, entry)
	for _, r := range ci.Requires {
		vc.assume("true", env.boolExpr(r.E))
	}
	rel := relName(rp.implKey, vc.pkgPath)
	var rt types.Type = fn.Signature.Results()
	if fn.Signature.Results().Len() == 1 {
		rt = fn.Signature.Results().At(0).Type()
	}
	vc.refining = true
	res := f.applyContract(ct, rel, fn, args, nil, st, "true", fn.Pos(), rt)
	vc.refining = false
	var results []*sym
	if res != nil {
		if res.tuple != nil {
			results = res.tuple
		} else if fn.Signature.Results().Len() > 0 {
			results = []*sym{res}
		}
	}
	if len(ci.Results) > 0 && len(ci.Results) != len(results) {
		return nil, fmt.Errorf("%s: interface contract names %d results, the method has %d", vc.fnName, len(ci.Results), len(results))
	}
	postSt := st
	penv := f.env(postSt, entry)
	for i, rn := range ci.Results {
		penv.vars[rn] = results[i]
	}
	if len(ci.Records) > 0 {
		postSt = postSt.clone()
		penv.cur = postSt
		f.applyRecords(ci, penv, postSt, "true")
	}
	for i, e := range ci.Ensures {
		label := e.Label
		if label == "" {
			label = fmt.Sprintf("e%d", i)
		}
		if w.mentionsGhost(e.Src) || strings.HasPrefix(label, "assumed_") {
			// the interface level and the implementation level observe through different ghosts: a clause that defines
			// or uses an observation ghost is not comparable (it stays trusted); `assumed_…` labels mark facts about
			// stored data that no implementation can establish
			vc.skipped = append(vc.skipped, label)
			continue
		}
		props := e.Props
		if props == nil {
			props = ci.Props
		}
		vc.oblige("post", label, "true", penv.boolExpr(e.E), fn.Pos(), e.Src, props)
	}
	return vc, nil
}

// mentionsGhost: does the clause text name a declared ghost?
func (w *World) mentionsGhost(src string) bool {
	for n, d := range w.defs {
		if d.Kind != "ghost" {
			continue
		}
		for i := strings.Index(src, n); i >= 0; {
			before := i == 0 || !(isIdentByte(src[i-1]) || src[i-1] == '.')
			after := i+len(n) >= len(src) || !isIdentByte(src[i+len(n)])
			if before && after {
				return true
			}
			j := strings.Index(src[i+1:], n)
			if j < 0 {
				break
			}
			i += 1 + j
		}
	}
	return false
}

func isIdentByte(b byte) bool {
	return b == '_' || b >= '0' && b <= '9' || b >= 'a' && b <= 'z' || b >= 'A' && b <= 'Z'
}
