package main

// Contract language: lexer, parser, AST.
//
// Contract files are comment-only Go files; every line that starts with "//@" belongs to the
// contract text.  Grammar (line oriented at the top level, free-form inside expressions):
//
//   ghost NAME TYPE                     ghost global (TYPE: int | bool | string | map[K]V)
//   ufunc NAME(T1, T2, ...) R           uninterpreted spec function
//   pred  NAME(x T, y U) = EXPR         macro-expanded predicate (heap-reading allowed)
//   sfunc NAME(x T) R = EXPR            macro-expanded spec function
//   axiom NAME(x T, ...): EXPR          assumed formula (only accepted from the assumed/ directory)
//   lemma NAME(x T, ...) [twostate] [props C01 C02]: EXPR     proved formula (an obligation)
//   fn FUNCNAME(p1, p2, ...) (r1, r2)   starts a function contract; following clause lines:
//       props C01 C02
//       requires [label] EXPR
//       ensures  [label] EXPR
//       modifies LOC, LOC, ...          LOC: place expr | heap(T.f.g) | ghost name | *
//       loop K invariant [label] EXPR
//       loop K modifies LOC, ...
//       safety                          emit zero-annotation safety obligations for this body
//       trusted                         contract is assumed, body not verified (external / out of reach)
//       pure                            result is an uninterpreted function of the arguments, no effects
//       noeffect                        no effect on modelled state; results unconstrained
//       nullable p                      pointer parameter p may be nil
//       interference NAME               rely predicate applied before every call in this body
//       expect calls CALLEE >= N        site obligation: the call still exists
//       assert before CALLEE[#k] [label] EXPR    site obligation: EXPR holds immediately before that call
//       assert after  CALLEE[#k] [label] EXPR
//
// A clause continues on following lines until a line that starts with a keyword.

import (
	"fmt"
	"regexp"
	"strconv"
	"strings"
	"unicode"
)

// ---------- expression AST ----------

type Expr interface{ String() string }

type (
	EIdent struct{ Name string }
	EInt   struct{ V string }
	EStr   struct{ V string }
	EBool  struct{ V bool }
	ENil   struct{}
	EUn    struct {
		Op string
		X  Expr
	}
	EBin struct {
		Op   string
		X, Y Expr
	}
	ESel struct {
		X Expr
		F string
	}
	EIdx struct {
		X, I Expr
	}
	ESlice struct {
		X, Lo, Hi Expr
	}
	ECall struct {
		F    string
		Args []Expr
	}
	EOld   struct{ X Expr }
	EQuant struct {
		Forall bool
		Vars   []Binder
		Body   Expr
	}
	EIte  struct{ C, A, B Expr }
	EIter struct{ X Expr }
	// EEntry: value of X when the loop whose clause this is was entered
	EEntry struct{ X Expr }
)

type Binder struct {
	Name string
	Type string // Go type expression text
}

func (e *EIdent) String() string { return e.Name }
func (e *EInt) String() string   { return e.V }
func (e *EStr) String() string   { return strconv.Quote(e.V) }
func (e *EBool) String() string  { return fmt.Sprint(e.V) }
func (e *ENil) String() string   { return "nil" }
func (e *EUn) String() string    { return e.Op + e.X.String() }
func (e *EBin) String() string   { return "(" + e.X.String() + " " + e.Op + " " + e.Y.String() + ")" }
func (e *ESel) String() string   { return e.X.String() + "." + e.F }
func (e *EIdx) String() string   { return e.X.String() + "[" + e.I.String() + "]" }
func (e *ESlice) String() string {
	lo, hi := "", ""
	if e.Lo != nil {
		lo = e.Lo.String()
	}
	if e.Hi != nil {
		hi = e.Hi.String()
	}
	return e.X.String() + "[" + lo + ":" + hi + "]"
}
func (e *ECall) String() string {
	var a []string
	for _, x := range e.Args {
		a = append(a, x.String())
	}
	return e.F + "(" + strings.Join(a, ", ") + ")"
}
func (e *EOld) String() string   { return "old(" + e.X.String() + ")" }
func (e *EIter) String() string  { return "iter(" + e.X.String() + ")" }
func (e *EEntry) String() string { return "entry(" + e.X.String() + ")" }
func (e *EQuant) String() string {
	q := "exists"
	if e.Forall {
		q = "forall"
	}
	var v []string
	for _, b := range e.Vars {
		v = append(v, b.Name+" "+b.Type)
	}
	return "(" + q + " " + strings.Join(v, ", ") + " :: " + e.Body.String() + ")"
}
func (e *EIte) String() string {
	return "ite(" + e.C.String() + ", " + e.A.String() + ", " + e.B.String() + ")"
}

// ---------- lexer ----------

type tok struct {
	k string // id int str op eof
	s string
}

type lexer struct {
	src  string
	pos  int
	toks []tok
}

var ops = []string{"<==>", "==>", "::", "==", "!=", "<=", ">=", "&&", "||", "(", ")", "[", "]", "{", "}", ",", ".", ":", "<", ">", "+", "-", "*", "/", "%", "!", "="}

func lex(src string) ([]tok, error) {
	var out []tok
	i := 0
	for i < len(src) {
		c := src[i]
		if c == ' ' || c == '\t' || c == '\n' || c == '\r' {
			i++
			continue
		}
		if c == '/' && i+1 < len(src) && src[i+1] == '/' { // trailing comment
			for i < len(src) && src[i] != '\n' {
				i++
			}
			continue
		}
		if unicode.IsLetter(rune(c)) || c == '_' || c == '$' {
			j := i
			for j < len(src) && (unicode.IsLetter(rune(src[j])) || unicode.IsDigit(rune(src[j])) || src[j] == '_' || src[j] == '$') {
				j++
			}
			out = append(out, tok{"id", src[i:j]})
			i = j
			continue
		}
		if unicode.IsDigit(rune(c)) {
			j := i
			for j < len(src) && (unicode.IsDigit(rune(src[j])) || src[j] == '_') {
				j++
			}
			out = append(out, tok{"int", strings.ReplaceAll(src[i:j], "_", "")})
			i = j
			continue
		}
		if c == '"' {
			j := i + 1
			for j < len(src) && src[j] != '"' {
				if src[j] == '\\' {
					j++
				}
				j++
			}
			if j >= len(src) {
				return nil, fmt.Errorf("unterminated string")
			}
			s, err := strconv.Unquote(src[i : j+1])
			if err != nil {
				return nil, fmt.Errorf("bad string %s: %v", src[i:j+1], err)
			}
			out = append(out, tok{"str", s})
			i = j + 1
			continue
		}
		if c == '`' {
			j := i + 1
			for j < len(src) && src[j] != '`' {
				j++
			}
			if j >= len(src) {
				return nil, fmt.Errorf("unterminated raw string")
			}
			out = append(out, tok{"str", src[i+1 : j]})
			i = j + 1
			continue
		}
		matched := false
		for _, o := range ops {
			if strings.HasPrefix(src[i:], o) {
				out = append(out, tok{"op", o})
				i += len(o)
				matched = true
				break
			}
		}
		if !matched {
			return nil, fmt.Errorf("unexpected character %q at %d in %q", c, i, src)
		}
	}
	out = append(out, tok{"eof", ""})
	return out, nil
}

// ---------- expression parser (Pratt) ----------

type parser struct {
	t []tok
	p int
}

func (p *parser) peek() tok { return p.t[p.p] }
func (p *parser) next() tok { t := p.t[p.p]; p.p++; return t }
func (p *parser) isOp(s string) bool {
	return p.t[p.p].k == "op" && p.t[p.p].s == s
}
func (p *parser) accept(s string) bool {
	if p.isOp(s) {
		p.p++
		return true
	}
	return false
}
func (p *parser) expect(s string) error {
	if !p.accept(s) {
		return fmt.Errorf("expected %q, got %q", s, p.peek().s)
	}
	return nil
}

var binPrec = map[string]int{
	"<==>": 1, "==>": 2, "||": 3, "&&": 4,
	"==": 5, "!=": 5, "<": 5, "<=": 5, ">": 5, ">=": 5,
	"+": 6, "-": 6, "*": 7, "/": 7, "%": 7,
}

func parseExpr(src string) (Expr, error) {
	t, err := lex(src)
	if err != nil {
		return nil, err
	}
	p := &parser{t: t}
	e, err := p.expr(0)
	if err != nil {
		return nil, fmt.Errorf("%v in %q", err, src)
	}
	if p.peek().k != "eof" {
		return nil, fmt.Errorf("trailing %q in %q", p.peek().s, src)
	}
	return e, nil
}

func (p *parser) expr(min int) (Expr, error) {
	// quantifiers bind as far right as possible
	if p.peek().k == "id" && (p.peek().s == "forall" || p.peek().s == "exists") {
		return p.quant()
	}
	lhs, err := p.unary()
	if err != nil {
		return nil, err
	}
	for {
		t := p.peek()
		if t.k != "op" {
			break
		}
		pr, ok := binPrec[t.s]
		if !ok || pr < min {
			break
		}
		p.next()
		var rhs Expr
		if t.s == "==>" { // right assoc
			rhs, err = p.expr(pr)
		} else {
			rhs, err = p.expr(pr + 1)
		}
		if err != nil {
			return nil, err
		}
		lhs = &EBin{t.s, lhs, rhs}
	}
	return lhs, nil
}

func (p *parser) quant() (Expr, error) {
	q := p.next().s
	var vars []Binder
	for {
		if p.peek().k != "id" {
			return nil, fmt.Errorf("binder name expected")
		}
		name := p.next().s
		// type: tokens up to ',' or '::'
		var ty []string
		depth := 0
		for {
			t := p.peek()
			if t.k == "eof" {
				return nil, fmt.Errorf("unterminated binder")
			}
			if depth == 0 && t.k == "op" && (t.s == "," || t.s == "::") {
				break
			}
			if t.k == "op" && (t.s == "[" || t.s == "(") {
				depth++
			}
			if t.k == "op" && (t.s == "]" || t.s == ")") {
				depth--
			}
			ty = append(ty, t.s)
			p.next()
		}
		tys := strings.Join(ty, "")
		if tys == "" {
			tys = "int"
		}
		vars = append(vars, Binder{name, tys})
		if p.accept(",") {
			continue
		}
		if err := p.expect("::"); err != nil {
			return nil, err
		}
		break
	}
	body, err := p.expr(0)
	if err != nil {
		return nil, err
	}
	return &EQuant{q == "forall", vars, body}, nil
}

func (p *parser) unary() (Expr, error) {
	if p.accept("!") {
		x, err := p.unary()
		if err != nil {
			return nil, err
		}
		return &EUn{"!", x}, nil
	}
	if p.accept("-") {
		x, err := p.unary()
		if err != nil {
			return nil, err
		}
		return &EUn{"-", x}, nil
	}
	return p.postfix()
}

func (p *parser) postfix() (Expr, error) {
	x, err := p.primary()
	if err != nil {
		return nil, err
	}
	for {
		switch {
		case p.accept("."):
			if p.peek().k != "id" {
				return nil, fmt.Errorf("field name expected after '.'")
			}
			x = &ESel{x, p.next().s}
		case p.accept("["):
			var lo, hi Expr
			if !p.isOp(":") {
				lo, err = p.expr(0)
				if err != nil {
					return nil, err
				}
			}
			if p.accept(":") {
				if !p.isOp("]") {
					hi, err = p.expr(0)
					if err != nil {
						return nil, err
					}
				}
				if err := p.expect("]"); err != nil {
					return nil, err
				}
				x = &ESlice{x, lo, hi}
			} else {
				if err := p.expect("]"); err != nil {
					return nil, err
				}
				x = &EIdx{x, lo}
			}
		default:
			return x, nil
		}
	}
}

func (p *parser) primary() (Expr, error) {
	t := p.next()
	switch t.k {
	case "int":
		return &EInt{t.s}, nil
	case "str":
		return &EStr{t.s}, nil
	case "id":
		switch t.s {
		case "true":
			return &EBool{true}, nil
		case "false":
			return &EBool{false}, nil
		case "nil":
			return &ENil{}, nil
		}
		if p.isOp("(") {
			p.next()
			var args []Expr
			for !p.isOp(")") {
				a, err := p.expr(0)
				if err != nil {
					return nil, err
				}
				args = append(args, a)
				if !p.accept(",") {
					break
				}
			}
			if err := p.expect(")"); err != nil {
				return nil, err
			}
			if t.s == "old" {
				if len(args) != 1 {
					return nil, fmt.Errorf("old takes one argument")
				}
				return &EOld{args[0]}, nil
			}
			if t.s == "iter" {
				if len(args) != 1 {
					return nil, fmt.Errorf("iter takes one argument")
				}
				return &EIter{args[0]}, nil
			}
			if t.s == "entry" {
				if len(args) != 1 {
					return nil, fmt.Errorf("entry takes one argument")
				}
				return &EEntry{args[0]}, nil
			}
			if t.s == "ite" {
				if len(args) != 3 {
					return nil, fmt.Errorf("ite takes three arguments")
				}
				return &EIte{args[0], args[1], args[2]}, nil
			}
			return &ECall{t.s, args}, nil
		}
		return &EIdent{t.s}, nil
	case "op":
		if t.s == "(" {
			e, err := p.expr(0)
			if err != nil {
				return nil, err
			}
			if err := p.expect(")"); err != nil {
				return nil, err
			}
			return e, nil
		}
	}
	return nil, fmt.Errorf("unexpected token %q", t.s)
}

// ---------- contract file structure ----------

type Clause struct {
	Kind  string // requires ensures invariant assertbefore assertafter
	Label string
	Props []string
	E     Expr
	Src   string
	// for loop clauses
	Loop int
	// for site asserts
	Callee string
	Ord    int // -1 = every site
}

type ModLoc struct {
	Star  bool
	Ghost string
	Heap  string // "T.f.g" whole-heap form
	Place Expr   // single place
	Src   string
}

type Contract struct {
	Pkg           string // package path the contract file belongs to ("" for assumed = absolute names)
	Func          string // function name as written
	Params        []string
	Results       []string
	Props         []string
	Requires      []*Clause
	Ensures       []*Clause
	Modifies      []ModLoc
	HasMod        bool
	LoopInv       map[int][]*Clause
	LoopMod       map[int][]ModLoc
	Safety        bool
	Trusted       bool
	Pure          bool
	NoEffect      bool
	Nullable      map[string]bool
	Interf        string
	Expect        []ExpectCall
	Sites         []*Clause
	File          string
	Line          int
	Assumed       bool
	Inline        bool
	RetClosure    string // returnsclosure NAME: the (single) result is a closure of that function
	CallsBack     string // callsback PARAM: the function value passed as PARAM is called zero or more times
	FuncSetGlobal string // funcset GLOBAL = f1, f2: dynamic calls through this immutable table are one of these
	FuncSet       []string
	FreshRes      bool
	NonNilRes     bool
	SpawnMod      []ModLoc
	SpawnEns      []*Clause
	LoopStep      map[int][]*Clause
	Variant       string
	Records       []Record
}

// Record: definitional ghost instrumentation — at every call of the function the ghost NAME is set to EXPR
// (evaluated in the post-state, old() = pre-state).  Not checked against the body: the ghost has no other writer.
type Record struct {
	Ghost string
	E     Expr
	Src   string
}

type ExpectCall struct {
	Callee string
	Min    int
	Props  []string
}

type SpecDef struct {
	Kind     string // pred sfunc ufunc axiom lemma ghost
	Name     string
	Params   []Binder
	Result   string
	Body     Expr
	Src      string
	TwoState bool
	Props    []string
	Pkg      string
	File     string
	Line     int
	Assumed  bool
	Uses     []string
	Rec      bool
}

type SpecFile struct {
	Pkg       string
	Defs      []*SpecDef
	Contracts []*Contract
}

var topKeywords = map[string]bool{"global": true, "ghost": true, "ufunc": true, "pred": true, "sfunc": true, "axiom": true, "lemma": true, "fn": true}
var clauseKeywords = map[string]bool{"props": true, "requires": true, "ensures": true, "modifies": true, "loop": true, "safety": true,
	"trusted": true, "pure": true, "noeffect": true, "nullable": true, "interference": true, "expect": true, "assert": true, "inline": true, "funcset": true, "returnsclosure": true, "callsback": true, "callback": true,
	"freshresult": true, "nonnilresult": true, "uses": true, "spawn": true, "records": true}

// extractSpecLines pulls the //@ lines out of a Go source text.
type specLine struct {
	Text   string
	Line   int
	Indent int
}

func extractSpecLines(src string) []specLine {
	var out []specLine
	for i, l := range strings.Split(src, "\n") {
		t := strings.TrimSpace(stripTrailingComment(l))
		var body string
		switch {
		case strings.HasPrefix(t, "//@"):
			body = t[3:]
		case strings.HasPrefix(t, "// @"): // gofmt rewrites //@ in doc comments
			body = t[4:]
		default:
			continue
		}
		body = strings.ReplaceAll(body, "\t", "    ")
		indent := len(body) - len(strings.TrimLeft(body, " "))
		out = append(out, specLine{strings.TrimSpace(body), i + 1, indent})
	}
	return out
}

func firstWord(s string) (string, string) {
	s = strings.TrimSpace(s)
	i := strings.IndexAny(s, " \t")
	if i < 0 {
		return s, ""
	}
	return s[:i], strings.TrimSpace(s[i+1:])
}

// parseLabel parses an optional "[label]" or "[C01,C02 label]" prefix.
func parseLabel(s string) (label string, props []string, rest string) {
	s = strings.TrimSpace(s)
	if !strings.HasPrefix(s, "[") {
		return "", nil, s
	}
	j := strings.Index(s, "]")
	if j < 0 {
		return "", nil, s
	}
	inner := s[1:j]
	// make sure it is a label, not an index expression: labels contain only word chars, commas, spaces
	for _, c := range inner {
		if !(unicode.IsLetter(c) || unicode.IsDigit(c) || c == '_' || c == ',' || c == ' ' || c == '-') {
			return "", nil, s
		}
	}
	for _, w := range strings.FieldsFunc(inner, func(r rune) bool { return r == ' ' || r == ',' }) {
		if len(w) >= 3 && w[0] == 'C' && unicode.IsDigit(rune(w[1])) && unicode.IsDigit(rune(w[2])) {
			props = append(props, w)
		} else {
			label = w
		}
	}
	return label, props, strings.TrimSpace(s[j+1:])
}

func parseBinders(s string) ([]Binder, error) {
	s = strings.TrimSpace(s)
	if s == "" {
		return nil, nil
	}
	var out []Binder
	depth := 0
	start := 0
	parts := []string{}
	for i, c := range s {
		switch c {
		case '[', '(':
			depth++
		case ']', ')':
			depth--
		case ',':
			if depth == 0 {
				parts = append(parts, s[start:i])
				start = i + 1
			}
		}
	}
	parts = append(parts, s[start:])
	for _, p := range parts {
		n, t := firstWord(p)
		if t == "" {
			t = "int"
		}
		out = append(out, Binder{n, strings.ReplaceAll(t, " ", "")})
	}
	return out, nil
}

func splitTopComma(s string) []string {
	var parts []string
	depth := 0
	start := 0
	for i, c := range s {
		switch c {
		case '[', '(':
			depth++
		case ']', ')':
			depth--
		case ',':
			if depth == 0 {
				parts = append(parts, strings.TrimSpace(s[start:i]))
				start = i + 1
			}
		}
	}
	if strings.TrimSpace(s[start:]) != "" {
		parts = append(parts, strings.TrimSpace(s[start:]))
	}
	return parts
}

func parseModLocs(s string) ([]ModLoc, error) {
	var out []ModLoc
	for _, p := range splitTopComma(s) {
		switch {
		case p == "*":
			out = append(out, ModLoc{Star: true, Src: p})
		case strings.HasPrefix(p, "heap(") && strings.HasSuffix(p, ")"):
			out = append(out, ModLoc{Heap: strings.TrimSpace(p[5 : len(p)-1]), Src: p})
		case strings.HasPrefix(p, "ghost "):
			out = append(out, ModLoc{Ghost: strings.TrimSpace(p[6:]), Src: p})
		default:
			e, err := parseExpr(p)
			if err != nil {
				return nil, err
			}
			out = append(out, ModLoc{Place: e, Src: p})
		}
	}
	return out, nil
}

// matchParen returns the index of the parenthesis closing the one at s[i].
func matchParen(s string, i int) int {
	depth := 0
	for j := i; j < len(s); j++ {
		switch s[j] {
		case '(':
			depth++
		case ')':
			depth--
			if depth == 0 {
				return j
			}
		}
	}
	return -1
}

func parseSpecText(src, pkg, file string, assumed bool) (*SpecFile, error) {
	lines := extractSpecLines(src)
	sf := &SpecFile{Pkg: pkg}
	// group into logical statements: a statement starts at a line whose first word is a keyword
	type stmt struct {
		kw, rest string
		line     int
	}
	var stmts []stmt
	for _, l := range lines {
		if l.Text == "" {
			continue
		}
		w, rest := firstWord(l.Text)
		if (topKeywords[w] && l.Indent <= 1) || (clauseKeywords[w] && l.Indent >= 2) {
			stmts = append(stmts, stmt{w, rest, l.Line})
		} else {
			if len(stmts) == 0 {
				return nil, fmt.Errorf("%s:%d: text before any keyword: %s", file, l.Line, l.Text)
			}
			stmts[len(stmts)-1].rest += "\n" + l.Text
		}
	}
	var cur *Contract
	errf := func(line int, f string, a ...any) error {
		return fmt.Errorf("%s:%d: %s", file, line, fmt.Sprintf(f, a...))
	}
	for _, s := range stmts {
		switch s.kw {
		case "global":
			// global PKGPATH.NAME nonnil   — assumed fact about an immutable package-level variable
			n, t := firstWord(s.rest)
			t = strings.TrimSpace(t)
			if !assumed || (t != "nonnil" && t != "positive") {
				return nil, errf(s.line, "global NAME nonnil|positive (assumed files only)")
			}
			sf.Defs = append(sf.Defs, &SpecDef{Kind: "global", Name: "global:" + n, Result: t, Pkg: pkg, File: file, Line: s.line, Assumed: true})
			cur = nil
		case "ghost":
			n, t := firstWord(s.rest)
			sf.Defs = append(sf.Defs, &SpecDef{Kind: "ghost", Name: n, Result: strings.ReplaceAll(t, " ", ""), Pkg: pkg, File: file, Line: s.line, Assumed: assumed})
			cur = nil
		case "ufunc":
			i := strings.Index(s.rest, "(")
			j := matchParen(s.rest, i)
			if i < 0 || j < 0 {
				return nil, errf(s.line, "bad ufunc")
			}
			d := &SpecDef{Kind: "ufunc", Name: strings.TrimSpace(s.rest[:i]), Result: strings.ReplaceAll(strings.TrimSpace(s.rest[j+1:]), " ", ""), Pkg: pkg, File: file, Line: s.line, Assumed: assumed}
			for _, t := range splitTopComma(s.rest[i+1 : j]) {
				// allow "name T" or "T"
				n, ty := firstWord(t)
				if ty == "" {
					ty = n
					n = fmt.Sprintf("a%d", len(d.Params))
				}
				d.Params = append(d.Params, Binder{n, strings.ReplaceAll(ty, " ", "")})
			}
			sf.Defs = append(sf.Defs, d)
			cur = nil
		case "pred", "sfunc", "axiom", "lemma":
			i := strings.Index(s.rest, "(")
			j := matchParen(s.rest, i)
			if i < 0 || j < 0 {
				return nil, errf(s.line, "bad %s header", s.kw)
			}
			d := &SpecDef{Kind: s.kw, Name: strings.TrimSpace(s.rest[:i]), Src: s.rest, Pkg: pkg, File: file, Line: s.line, Assumed: assumed}
			b, err := parseBinders(s.rest[i+1 : j])
			if err != nil {
				return nil, errf(s.line, "%v", err)
			}
			d.Params = b
			tail := strings.TrimSpace(s.rest[j+1:])
			sep := "="
			if s.kw == "axiom" || s.kw == "lemma" {
				sep = ":"
			}
			k := strings.Index(tail, sep)
			if sep == "=" {
				// the header may contain uses=LOC,LOC: the definition starts at the first "=" that stands alone
				if loc := regexp.MustCompile(`(^|\s)=(\s|$)`).FindStringIndex(tail); loc != nil {
					k = strings.Index(tail[loc[0]:], "=") + loc[0]
				}
			}
			if k < 0 {
				return nil, errf(s.line, "missing %q in %s", sep, s.kw)
			}
			head := strings.TrimSpace(tail[:k])
			body := tail[k+1:]
			if s.kw == "pred" {
				d.Result = "bool"
			}
			for _, w := range strings.Fields(head) {
				switch {
				case w == "twostate":
					d.TwoState = true
				case w == "rec" && s.kw == "sfunc":
					d.Rec = true
				case w == "props":
				case len(w) >= 3 && w[0] == 'C' && unicode.IsDigit(rune(w[1])):
					d.Props = append(d.Props, w)
				case strings.HasPrefix(w, "uses="):
					d.Uses = append(d.Uses, strings.Split(w[5:], ",")...)
				default:
					if s.kw == "sfunc" {
						d.Result = w
					} else {
						return nil, errf(s.line, "unexpected %q in header", w)
					}
				}
			}
			e, err := parseExpr(body)
			if err != nil {
				return nil, errf(s.line, "%v", err)
			}
			d.Body = e
			if s.kw == "axiom" && !assumed {
				return nil, errf(s.line, "axiom outside the assumed directory")
			}
			sf.Defs = append(sf.Defs, d)
			cur = nil
		case "fn":
			// FUNCNAME(p1, p2) (r1, r2)   — FUNCNAME may itself contain parentheses: (*T).m
			rest := strings.TrimSpace(s.rest)
			// find the parameter list: the last top-level "(...)" group or the last two
			groups := [][2]int{}
			for i := 0; i < len(rest); i++ {
				if rest[i] == '(' {
					j := matchParen(rest, i)
					if j < 0 {
						return nil, errf(s.line, "unbalanced parens in fn header")
					}
					groups = append(groups, [2]int{i, j})
					i = j
				}
			}
			// receiver group is one that is followed by '.'
			var pg, rg *[2]int
			for gi := range groups {
				g := groups[gi]
				if g[1]+1 < len(rest) && rest[g[1]+1] == '.' {
					continue
				}
				if pg == nil {
					pg = &groups[gi]
				} else if rg == nil {
					rg = &groups[gi]
				}
			}
			if pg == nil {
				return nil, errf(s.line, "fn header needs a parameter list: %s", rest)
			}
			c := &Contract{Pkg: pkg, Func: strings.TrimSpace(rest[:pg[0]]), LoopInv: map[int][]*Clause{}, LoopMod: map[int][]ModLoc{}, LoopStep: map[int][]*Clause{}, Nullable: map[string]bool{}, File: file, Line: s.line, Assumed: assumed}
			// trailing "variant NAME"
			lastEnd := pg[1]
			if rg != nil {
				lastEnd = rg[1]
			}
			if tail := strings.Fields(rest[lastEnd+1:]); len(tail) == 2 && tail[0] == "variant" {
				c.Variant = tail[1]
			}
			for _, p := range splitTopComma(rest[pg[0]+1 : pg[1]]) {
				c.Params = append(c.Params, p)
			}
			if rg != nil {
				for _, p := range splitTopComma(rest[rg[0]+1 : rg[1]]) {
					c.Results = append(c.Results, p)
				}
			}
			sf.Contracts = append(sf.Contracts, c)
			cur = c
		default:
			if cur == nil {
				return nil, errf(s.line, "clause %q outside a fn contract", s.kw)
			}
			switch s.kw {
			case "props":
				cur.Props = append(cur.Props, strings.Fields(s.rest)...)
			case "requires", "ensures":
				label, props, rest := parseLabel(s.rest)
				e, err := parseExpr(rest)
				if err != nil {
					return nil, errf(s.line, "%v", err)
				}
				cl := &Clause{Kind: s.kw, Label: label, Props: props, E: e, Src: rest}
				if s.kw == "requires" {
					cur.Requires = append(cur.Requires, cl)
				} else {
					cur.Ensures = append(cur.Ensures, cl)
				}
			case "modifies":
				m, err := parseModLocs(s.rest)
				if err != nil {
					return nil, errf(s.line, "%v", err)
				}
				cur.Modifies = append(cur.Modifies, m...)
				cur.HasMod = true
			case "loop":
				ks, rest := firstWord(s.rest)
				k, err := strconv.Atoi(ks)
				if err != nil {
					return nil, errf(s.line, "loop ordinal expected")
				}
				what, rest := firstWord(rest)
				switch what {
				case "invariant":
					label, props, rest := parseLabel(rest)
					e, err := parseExpr(rest)
					if err != nil {
						return nil, errf(s.line, "%v", err)
					}
					cur.LoopInv[k] = append(cur.LoopInv[k], &Clause{Kind: "invariant", Label: label, Props: props, E: e, Src: rest, Loop: k})
				case "modifies":
					m, err := parseModLocs(rest)
					if err != nil {
						return nil, errf(s.line, "%v", err)
					}
					cur.LoopMod[k] = append(cur.LoopMod[k], m...)
				case "step":
					label, props, rest := parseLabel(rest)
					e, err := parseExpr(rest)
					if err != nil {
						return nil, errf(s.line, "%v", err)
					}
					cur.LoopStep[k] = append(cur.LoopStep[k], &Clause{Kind: "step", Label: label, Props: props, E: e, Src: rest, Loop: k})
				default:
					return nil, errf(s.line, "loop clause must be invariant, step or modifies")
				}
			case "records":
				i := strings.Index(s.rest, "=")
				if i < 0 {
					return nil, errf(s.line, "records NAME = EXPR")
				}
				e, err := parseExpr(s.rest[i+1:])
				if err != nil {
					return nil, errf(s.line, "%v", err)
				}
				cur.Records = append(cur.Records, Record{Ghost: strings.TrimSpace(s.rest[:i]), E: e, Src: s.rest})
			case "spawn":
				what, rest := firstWord(s.rest)
				switch what {
				case "modifies":
					m, err := parseModLocs(rest)
					if err != nil {
						return nil, errf(s.line, "%v", err)
					}
					cur.SpawnMod = append(cur.SpawnMod, m...)
				case "ensures":
					label, props, rest := parseLabel(rest)
					e, err := parseExpr(rest)
					if err != nil {
						return nil, errf(s.line, "%v", err)
					}
					cur.SpawnEns = append(cur.SpawnEns, &Clause{Kind: "spawnensures", Label: label, Props: props, E: e, Src: rest})
				default:
					return nil, errf(s.line, "spawn modifies|ensures")
				}
			case "safety":
				cur.Safety = true
			case "trusted":
				cur.Trusted = true
			case "pure":
				cur.Pure = true
			case "noeffect":
				cur.NoEffect = true
			case "inline":
				cur.Inline = true
			case "returnsclosure":
				cur.RetClosure = strings.TrimSpace(s.rest)
			case "callsback":
				// callsback PARAM: the function calls the function value handed in as PARAM zero or more times
				cur.CallsBack = strings.TrimSpace(s.rest)
			case "funcset":
				i := strings.Index(s.rest, "=")
				if i < 0 {
					return nil, errf(s.line, "funcset GLOBAL = f1, f2, ...")
				}
				cur.FuncSetGlobal = strings.TrimSpace(s.rest[:i])
				for _, n := range strings.Split(s.rest[i+1:], ",") {
					if n = strings.TrimSpace(n); n != "" {
						cur.FuncSet = append(cur.FuncSet, n)
					}
				}
			case "freshresult":
				cur.FreshRes = true
			case "nonnilresult":
				cur.NonNilRes = true
			case "nullable":
				for _, w := range strings.FieldsFunc(s.rest, func(r rune) bool { return r == ' ' || r == ',' }) {
					cur.Nullable[w] = true
				}
			case "interference":
				cur.Interf = strings.TrimSpace(s.rest)
			case "expect":
				// expect calls CALLEE >= N
				f := strings.Fields(s.rest)
				if len(f) < 4 || f[0] != "calls" || f[len(f)-2] != ">=" {
					return nil, errf(s.line, "expect calls CALLEE >= N")
				}
				n, err := strconv.Atoi(f[len(f)-1])
				if err != nil {
					return nil, errf(s.line, "bad count")
				}
				cur.Expect = append(cur.Expect, ExpectCall{Callee: strings.Join(f[1:len(f)-2], " "), Min: n})
			case "assert":
				when, rest := firstWord(s.rest)
				if when != "before" && when != "after" {
					return nil, errf(s.line, "assert before|after CALLEE ...")
				}
				// callee token: up to first space that is followed by '[' label or expression; callee has no spaces
				callee, rest := firstWord(rest)
				ord := -1
				if i := strings.LastIndex(callee, "#"); i >= 0 {
					if n, err := strconv.Atoi(callee[i+1:]); err == nil {
						ord = n
						callee = callee[:i]
					}
				}
				label, props, rest := parseLabel(rest)
				e, err := parseExpr(rest)
				if err != nil {
					return nil, errf(s.line, "%v", err)
				}
				cur.Sites = append(cur.Sites, &Clause{Kind: "assert" + when, Label: label, Props: props, E: e, Src: rest, Callee: callee, Ord: ord})
			case "callback":
				// callback CALLEE[#k] invariant [label] EXPR — holds before the call to CALLEE (a `callsback` function),
				// is preserved by one invocation of the callback handed to it, and is what is known afterwards;
				// entry(e) is the value of e before the call
				callee, rest := firstWord(s.rest)
				ord := -1
				if i := strings.LastIndex(callee, "#"); i >= 0 {
					if n, err := strconv.Atoi(callee[i+1:]); err == nil {
						ord = n
						callee = callee[:i]
					}
				}
				kw, rest := firstWord(rest)
				if kw != "invariant" {
					return nil, errf(s.line, "callback CALLEE invariant EXPR")
				}
				label, props, rest := parseLabel(rest)
				e, err := parseExpr(rest)
				if err != nil {
					return nil, errf(s.line, "%v", err)
				}
				cur.Sites = append(cur.Sites, &Clause{Kind: "cbinv", Label: label, Props: props, E: e, Src: rest, Callee: callee, Ord: ord})
			case "uses":
			default:
				return nil, errf(s.line, "unknown clause %q", s.kw)
			}
		}
	}
	return sf, nil
}

// stripTrailingComment removes a "// ..." comment that follows contract text on a //@ line.
func stripTrailingComment(l string) string {
	t := strings.TrimSpace(l)
	var start int
	switch {
	case strings.HasPrefix(t, "//@"):
		start = strings.Index(l, "//@") + 3
	case strings.HasPrefix(t, "// @"):
		start = strings.Index(l, "// @") + 4
	default:
		return l
	}
	inStr := byte(0)
	for i := start; i+1 < len(l); i++ {
		c := l[i]
		if inStr != 0 {
			if c == '\\' && inStr == '"' {
				i++
			} else if c == inStr {
				inStr = 0
			}
			continue
		}
		if c == '"' || c == '`' {
			inStr = c
			continue
		}
		if c == '/' && l[i+1] == '/' {
			return l[:i]
		}
	}
	return l
}
