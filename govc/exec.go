package main

// Symbolic execution of SSA instructions.

import (
	"fmt"
	"go/token"
	"go/types"
	"sort"
	"strings"

	"golang.org/x/tools/go/ssa"
)

func nativeModel(string) bool { return false }

func (f *frame) execBlock(b *ssa.BasicBlock, st *state, reach string) {
	vc := f.vc
	for ii, in := range b.Instrs {
		f.curBlock, f.curIdx = b, ii
		switch x := in.(type) {
		case *ssa.Phi:
			// handled at block entry
		case *ssa.DebugRef:
		case *ssa.If:
			c := f.term(x.Cond)
			f.setEdge(b, b.Succs[0], and(reach, c), st)
			f.setEdge(b, b.Succs[1], and(reach, not(c)), st)
		case *ssa.Jump:
			f.setEdge(b, b.Succs[0], reach, st)
		case *ssa.Return:
			var vals []*sym
			for _, r := range x.Results {
				s := f.val(r)
				vals = append(vals, &sym{t: f.symTerm(s), typ: r.Type(), tuple: s.tuple})
			}
			f.rets = append(f.rets, retRec{blk: b, pos: x.Pos(), reach: reach, vals: vals, st: st})
		case *ssa.Panic:
			if vc.safety {
				vc.oblige("safety:panic@"+vc.w.pos(x.Pos()), "", reach, "false", x.Pos(), "explicit panic is unreachable", nil)
			}
		case *ssa.Store:
			f.execStore(x, st, reach)
		case *ssa.MapUpdate:
			f.execMapUpdate(x, st, reach)
		case *ssa.Send:
			f.term(x.X)
		case *ssa.RunDefers:
			f.runDefers(st, reach)
		case *ssa.Defer:
			if f.inLoop(b) {
				vc.unsupported("defer inside a loop at %s", vc.w.pos(x.Pos()))
			}
			rec := &deferRec{instr: x, armed: reach}
			com := x.Common()
			if !com.IsInvoke() {
				rec.fnsym = f.val(com.Value)
			} else {
				rec.fnsym = f.val(com.Value)
			}
			for _, a := range com.Args {
				rec.args = append(rec.args, f.argSym(a))
			}
			f.defers = append(f.defers, rec)
		case *ssa.Go:
			f.execGo(x, st, reach)
		case ssa.Value:
			s := f.execValue(x, st, reach)
			if s != nil {
				f.vals[x] = s
			}
		default:
			fail("unhandled instruction %T", in)
		}
	}
}

func (f *frame) inLoop(b *ssa.BasicBlock) bool {
	for _, li := range f.loops {
		if li.blocks[b] {
			return true
		}
	}
	return false
}

func (f *frame) setEdge(from, to *ssa.BasicBlock, cond string, st *state) {
	vc := f.vc
	c := vc.define(fmt.Sprintf("edge_%d_%d", from.Index, to.Index), "Bool", cond)
	if isBackEdge(from, to) {
		if li := f.loops[to]; li != nil && f.reach[to] != "" {
			f.backEdge(from, li, c, st)
		}
		return
	}
	key := [2]int{from.Index, to.Index}
	if old, ok := f.edge[key]; ok { // both branches of an If lead to the same block
		f.edge[key] = or(old, c)
	} else {
		f.edge[key] = c
	}
	f.out[from] = st
}

func (f *frame) argSym(v ssa.Value) *sym {
	s := f.val(v)
	if s.pl != nil && s.t == "" {
		return &sym{t: f.symTerm(s), typ: s.typ, pl: s.pl}
	}
	return s
}

// ---------- stores ----------

func (f *frame) addrPlace(a ssa.Value, reach string, pos token.Pos) *place {
	s := f.val(a)
	if s.pl != nil {
		return s.pl
	}
	vc := f.vc
	if vc.safety {
		vc.oblige("safety:nil@"+valName(a), "", reach, not(eq(s.t, "nil")), pos, "pointer dereference: "+a.Name()+" is not nil", nil)
	}
	vc.assume(reach, not(eq(s.t, "nil")))
	return vc.placeOfPointer(s)
}

func valName(v ssa.Value) string {
	n := v.Name()
	if c, ok := v.(interface{ Comment() string }); ok {
		_ = c
	}
	return n
}

func (f *frame) execStore(x *ssa.Store, st *state, reach string) {
	pl := f.addrPlace(x.Addr, reach, x.Pos())
	v := f.val(x.Val)
	if v.clos != nil || v.bound != nil {
		// keep static knowledge about closures stored into cells (e.g. deferred closures)
		f.closCell(pl, v)
	}
	f.vc.writePlace(st, pl, f.symTerm(v))
}

func (f *frame) closCell(pl *place, v *sym) {}

func (f *frame) execMapUpdate(x *ssa.MapUpdate, st *state, reach string) {
	vc := f.vc
	m := f.term(x.Map)
	mt := x.Map.Type().Underlying().(*types.Map)
	if vc.safety {
		vc.oblige("safety:nilmap@"+valName(x.Map), "", reach, not(eq(m, "nil")), x.Pos(), "assignment to entry in nil map", nil)
	}
	vc.assume(reach, not(eq(m, "nil")))
	dk, vk := vc.mapKeys(mt)
	k := f.term(x.Key)
	v := f.term(x.Value)
	d := vc.hget(st, dk)
	vv := vc.hget(st, vk)
	vc.hset(st, dk, fmt.Sprintf("(store %s %s (store (select %s %s) %s true))", d, m, d, m, k))
	vc.hset(st, vk, fmt.Sprintf("(store %s %s (store (select %s %s) %s %s))", vv, m, vv, m, k, v))
}

// ---------- value instructions ----------

func (f *frame) execValue(v ssa.Value, st *state, reach string) *sym {
	vc := f.vc
	so := vc.w.so
	switch x := v.(type) {
	case *ssa.Alloc:
		r := f.newRef(st, reach, "new_"+x.Comment)
		t := derefType(x.Type())
		s := &sym{t: r, typ: x.Type()}
		f.zeroInit(st, s, t)
		return s
	case *ssa.FieldAddr:
		base := f.val(x.X)
		var pl *place
		if base.pl != nil {
			pl = base.pl
		} else {
			if vc.safety {
				vc.oblige("safety:nil@"+valName(x.X)+"."+fieldName(x), "", reach, not(eq(base.t, "nil")), x.Pos(), "field access through nil pointer", nil)
			}
			vc.assume(reach, not(eq(base.t, "nil")))
			pl = vc.placeOfPointer(base)
		}
		if _, ok := pl.typ.Underlying().(*types.Struct); !ok || (!transparentStruct(pl.typ) && pl.kind == plField) {
			// field of an opaque struct: treat as an opaque cell
			return &sym{typ: x.Type(), t: vc.fresh("opqaddr", "Ref")}
		}
		if !transparentStruct(pl.typ) {
			return &sym{typ: x.Type(), t: vc.fresh("opqaddr", "Ref")}
		}
		return &sym{typ: x.Type(), pl: pl.extend(x.Field)}
	case *ssa.Field:
		base := f.val(x.X)
		if !transparentStruct(x.X.Type()) {
			return f.freshOf(x.Type(), "fld", st, reach)
		}
		return &sym{t: vc.define("f", so.sortOf(x.Type()), "("+so.accessor(x.X.Type(), x.Field)+" "+base.t+")"), typ: x.Type()}
	case *ssa.IndexAddr:
		return f.execIndexAddr(x, st, reach)
	case *ssa.Index:
		base := f.val(x.X)
		i := f.term(x.Index)
		switch u := x.X.Type().Underlying().(type) {
		case *types.Array:
			if vc.safety {
				vc.oblige("safety:idx@"+valName(x), "", reach, fmt.Sprintf("(and (<= 0 %s) (< %s %d))", i, i, u.Len()), x.Pos(), "array index in range", nil)
			}
			return &sym{t: vc.define("ix", so.sortOf(x.Type()), "(select "+base.t+" "+i+")"), typ: x.Type()}
		default: // string
			if vc.safety {
				vc.oblige("safety:idx@"+valName(x), "", reach, fmt.Sprintf("(and (<= 0 %s) (< %s (str.len %s)))", i, i, base.t), x.Pos(), "string index in range", nil)
			}
			vc.assume(reach, fmt.Sprintf("(and (<= 0 %s) (< %s (str.len %s)))", i, i, base.t))
			return &sym{t: vc.define("ch", "Int", "(str.to_code (str.at "+base.t+" "+i+"))"), typ: x.Type()}
		}
	case *ssa.Lookup:
		return f.execLookup(x, st, reach)
	case *ssa.UnOp:
		return f.execUnOp(x, st, reach)
	case *ssa.BinOp:
		return f.execBinOp(x, st, reach)
	case *ssa.Call:
		return f.execCall(x, x.Common(), st, reach, x.Pos(), x.Type())
	case *ssa.ChangeType:
		s := f.val(x.X)
		return &sym{t: f.symTerm(s), typ: x.Type(), clos: s.clos, bound: s.bound}
	case *ssa.ChangeInterface:
		return &sym{t: f.term(x.X), typ: x.Type()}
	case *ssa.Convert:
		return f.execConvert(x, st, reach)
	case *ssa.MultiConvert:
		return f.freshOf(x.Type(), "mconv", st, reach)
	case *ssa.MakeInterface:
		return f.execMakeInterface(x, st, reach)
	case *ssa.TypeAssert:
		return f.execTypeAssert(x, st, reach)
	case *ssa.Extract:
		t := f.val(x.Tuple)
		if t.tuple == nil || x.Index >= len(t.tuple) {
			fail("extract from non-tuple %s", x.Tuple.Name())
		}
		return t.tuple[x.Index]
	case *ssa.MakeClosure:
		fn := x.Fn.(*ssa.Function)
		r := f.newRef(st, reach, "clos")
		ci := &closInfo{fn: fn}
		for _, b := range x.Bindings {
			ci.bindings = append(ci.bindings, f.argSym(b))
		}
		if strings.HasSuffix(fn.Name(), "$bound") && len(ci.bindings) == 1 {
			if m, ok := fn.Object().(*types.Func); ok {
				if mf := vc.w.prog.FuncValue(m); mf != nil {
					return &sym{t: r, typ: x.Type(), bound: &boundInfo{fn: mf, recv: ci.bindings[0]}}
				}
			}
		}
		return &sym{t: r, typ: x.Type(), clos: ci}
	case *ssa.MakeMap:
		r := f.newRef(st, reach, "map")
		mt := x.Type().Underlying().(*types.Map)
		dk, _ := vc.mapKeys(mt)
		d := vc.hget(st, dk)
		vc.hset(st, dk, fmt.Sprintf("(store %s %s %s)", d, r, vc.constArray(so.sortOf(mt.Key()), "Bool", "false")))
		return &sym{t: r, typ: x.Type()}
	case *ssa.MakeChan:
		return &sym{t: f.newRef(st, reach, "chan"), typ: x.Type()}
	case *ssa.MakeSlice:
		r := f.newRef(st, reach, "slice")
		el := x.Type().Underlying().(*types.Slice).Elem()
		ek := vc.elemKey(el)
		e := vc.hget(st, ek)
		vc.hset(st, ek, fmt.Sprintf("(store %s %s %s)", e, r, vc.constArray("Int", so.sortOf(el), so.zero(el))))
		ln, cp := f.term(x.Len), f.term(x.Cap)
		if vc.safety {
			vc.oblige("safety:makeslice@"+valName(x), "", reach, fmt.Sprintf("(and (<= 0 %s) (<= %s %s))", ln, ln, cp), x.Pos(), "makeslice: len in range", nil)
		}
		return &sym{t: vc.define("sl", "Slice", fmt.Sprintf("(mk_slice %s 0 %s %s)", r, ln, cp)), typ: x.Type()}
	case *ssa.Slice:
		return f.execSlice(x, st, reach)
	case *ssa.Range:
		s := f.val(x.X)
		rs := &sym{t: "nil", typ: x.Type()}
		if mt, ok := x.X.Type().Underlying().(*types.Map); ok {
			vis := vc.constArray(so.sortOf(mt.Key()), "Bool", "false")
			f.rangeSt[x] = &rangeRec{m: s, visited: vis}
			f.setVisited(x, st, vis)
		}
		return rs
	case *ssa.Next:
		return f.execNext(x, st, reach)
	case *ssa.Select:
		// nondeterministic choice; received values unconstrained
		var tup []*sym
		tup = append(tup, &sym{t: vc.fresh("selidx", "Int"), typ: types.Typ[types.Int]})
		tup = append(tup, &sym{t: vc.fresh("selok", "Bool"), typ: types.Typ[types.Bool]})
		for _, s := range x.States {
			if s.Dir == types.RecvOnly {
				et := s.Chan.Type().Underlying().(*types.Chan).Elem()
				tup = append(tup, f.freshOf(et, "selrecv", st, reach))
			}
		}
		n := len(x.States)
		if !x.Blocking {
			vc.assume(reach, fmt.Sprintf("(and (<= (- 1) %s) (< %s %d))", tup[0].t, tup[0].t, n))
		} else {
			vc.assume(reach, fmt.Sprintf("(and (<= 0 %s) (< %s %d))", tup[0].t, tup[0].t, n))
		}
		return &sym{tuple: tup, typ: x.Type()}
	case *ssa.SliceToArrayPointer:
		return f.freshOf(x.Type(), "s2a", st, reach)
	}
	fail("unhandled value instruction %T", v)
	return nil
}

func fieldName(x *ssa.FieldAddr) string {
	t := derefType(x.X.Type())
	if t == nil {
		return fmt.Sprint(x.Field)
	}
	if st, ok := t.Underlying().(*types.Struct); ok {
		return st.Field(x.Field).Name()
	}
	return fmt.Sprint(x.Field)
}

func (f *frame) newRef(st *state, reach, hint string) string {
	vc := f.vc
	r := vc.fresh(hint, "Ref")
	a := vc.hget(st, vc.allocKey())
	vc.assume("true", fmt.Sprintf("(and (not (= %s nil)) (not (select %s %s)))", r, a, r))
	vc.hset(st, vc.allocKey(), fmt.Sprintf("(store %s %s true)", a, r))
	return r
}

func (f *frame) zeroInit(st *state, p *sym, t types.Type) {
	vc := f.vc
	if transparentStruct(t) {
		pl := &place{kind: plField, root: p.t, rootT: t, typ: t}
		var paths [][]int
		vc.leafPaths(t, nil, &paths)
		for _, path := range paths {
			lt := pathType(t, path)
			lp := *pl
			lp.path = path
			lp.typ = lt
			vc.writePlace(st, &lp, vc.w.so.zero(lt))
		}
		return
	}
	if arr, ok := t.Underlying().(*types.Array); ok {
		ek := vc.elemKey(arr.Elem())
		e := vc.hget(st, ek)
		vc.hset(st, ek, fmt.Sprintf("(store %s %s %s)", e, p.t, vc.constArray("Int", vc.w.so.sortOf(arr.Elem()), vc.w.so.zero(arr.Elem()))))
		return
	}
	vc.writePlace(st, &place{kind: plCell, root: p.t, elemT: t, typ: t}, vc.w.so.zero(t))
}

// freshOf returns an unconstrained value of a Go type (tuples are expanded).
func (f *frame) freshOf(t types.Type, hint string, st *state, reach string) *sym {
	vc := f.vc
	if tup, ok := t.(*types.Tuple); ok {
		s := &sym{typ: t}
		for i := 0; i < tup.Len(); i++ {
			s.tuple = append(s.tuple, f.freshOf(tup.At(i).Type(), hint, st, reach))
		}
		return s
	}
	s := &sym{t: vc.fresh(hint, vc.w.so.sortOf(t)), typ: t}
	vc.wf("true", s.t, t, st, 0)
	return s
}

func (f *frame) execIndexAddr(x *ssa.IndexAddr, st *state, reach string) *sym {
	vc := f.vc
	base := f.val(x.X)
	i := f.term(x.Index)
	switch u := x.X.Type().Underlying().(type) {
	case *types.Slice:
		s := base.t
		inb := fmt.Sprintf("(and (<= 0 %s) (< %s (slen %s)))", i, i, s)
		if vc.safety {
			vc.oblige("safety:idx@"+valName(x.X)+"["+valName(x.Index)+"]", "", reach, inb, x.Pos(), "slice index in range", nil)
		}
		vc.assume(reach, inb)
		return &sym{typ: x.Type(), pl: &place{kind: plElem, base: "(sbase " + s + ")", idx: "(sidx " + s + " " + i + ")", elemT: u.Elem(), typ: u.Elem()}}
	case *types.Pointer:
		arr := u.Elem().Underlying().(*types.Array)
		inb := fmt.Sprintf("(and (<= 0 %s) (< %s %d))", i, i, arr.Len())
		if vc.safety {
			vc.oblige("safety:idx@"+valName(x.X)+"["+valName(x.Index)+"]", "", reach, inb, x.Pos(), "array index in range", nil)
		}
		vc.assume(reach, inb)
		return &sym{typ: x.Type(), pl: &place{kind: plElem, base: f.symTerm(base), idx: i, elemT: arr.Elem(), typ: arr.Elem()}}
	}
	fail("IndexAddr on %s", x.X.Type())
	return nil
}

func (f *frame) mapLookup(st *state, mt *types.Map, m, k string) (val, ok string) {
	vc := f.vc
	dk, vk := vc.mapKeys(mt)
	ok = fmt.Sprintf("(select (select %s %s) %s)", vc.hget(st, dk), m, k)
	ok = and(not(eq(m, "nil")), ok)
	val = ite(ok, fmt.Sprintf("(select (select %s %s) %s)", vc.hget(st, vk), m, k), vc.w.so.zero(mt.Elem()))
	return
}

func (f *frame) execLookup(x *ssa.Lookup, st *state, reach string) *sym {
	vc := f.vc
	if mt, ok := x.X.Type().Underlying().(*types.Map); ok {
		m := f.term(x.X)
		k := f.term(x.Index)
		val, okc := f.mapLookup(st, mt, m, k)
		vs := &sym{t: vc.define("mv", vc.w.so.sortOf(mt.Elem()), val), typ: mt.Elem()}
		vc.wf(reach, vs.t, mt.Elem(), st, 0)
		if x.CommaOk {
			return &sym{typ: x.Type(), tuple: []*sym{vs, {t: vc.define("mok", "Bool", okc), typ: types.Typ[types.Bool]}}}
		}
		return vs
	}
	// string index
	s := f.term(x.X)
	i := f.term(x.Index)
	inb := fmt.Sprintf("(and (<= 0 %s) (< %s (str.len %s)))", i, i, s)
	if vc.safety {
		vc.oblige("safety:idx@"+valName(x), "", reach, inb, x.Pos(), "string index in range", nil)
	}
	vc.assume(reach, inb)
	return &sym{t: vc.define("ch", "Int", "(str.to_code (str.at "+s+" "+i+"))"), typ: x.Type()}
}

func (f *frame) execUnOp(x *ssa.UnOp, st *state, reach string) *sym {
	vc := f.vc
	switch x.Op {
	case token.MUL: // load
		pl := f.addrPlace(x.X, reach, x.Pos())
		t := vc.readPlace(st, pl)
		s := &sym{t: vc.define("ld", vc.w.so.sortOf(x.Type()), t), typ: x.Type()}
		vc.wf(reach, s.t, x.Type(), st, 0)
		return s
	case token.NOT:
		return &sym{t: not(f.term(x.X)), typ: x.Type()}
	case token.SUB:
		return &sym{t: "(- " + f.term(x.X) + ")", typ: x.Type()}
	case token.ARROW:
		f.term(x.X)
		et := x.X.Type().Underlying().(*types.Chan).Elem()
		v := f.freshOf(et, "recv", st, reach)
		if x.CommaOk {
			return &sym{typ: x.Type(), tuple: []*sym{v, {t: vc.fresh("recvok", "Bool"), typ: types.Typ[types.Bool]}}}
		}
		return v
	case token.XOR:
		return f.freshOf(x.Type(), "xor", st, reach)
	}
	fail("unop %s", x.Op)
	return nil
}

func (f *frame) execBinOp(x *ssa.BinOp, st *state, reach string) *sym {
	vc := f.vc
	a, b := f.val(x.X), f.val(x.Y)
	at, bt := f.symTerm(a), f.symTerm(b)
	so := vc.w.so.sortOf(x.X.Type())
	res := func(t string) *sym {
		return &sym{t: vc.define("b", vc.w.so.sortOf(x.Type()), t), typ: x.Type()}
	}
	switch x.Op {
	case token.EQL, token.NEQ:
		var e string
		switch so {
		case "Slice":
			// only comparison with nil is legal
			if bt == "nilslice" {
				e = eq("(sbase "+at+")", "nil")
			} else {
				e = eq("(sbase "+bt+")", "nil")
			}
		case "Iface":
			e = ifaceEq(at, bt)
		default:
			e = eq(at, bt)
		}
		if x.Op == token.NEQ {
			e = not(e)
		}
		return res(e)
	case token.LSS, token.LEQ, token.GTR, token.GEQ:
		op := map[token.Token]string{token.LSS: "<", token.LEQ: "<=", token.GTR: ">", token.GEQ: ">="}[x.Op]
		if so == "String" {
			switch x.Op {
			case token.LSS:
				return res("(str.< " + at + " " + bt + ")")
			case token.LEQ:
				return res("(str.<= " + at + " " + bt + ")")
			case token.GTR:
				return res("(str.< " + bt + " " + at + ")")
			default:
				return res("(str.<= " + bt + " " + at + ")")
			}
		}
		return res("(" + op + " " + at + " " + bt + ")")
	case token.ADD:
		if so == "String" {
			return res("(str.++ " + at + " " + bt + ")")
		}
		return res("(+ " + at + " " + bt + ")")
	case token.SUB:
		return res("(- " + at + " " + bt + ")")
	case token.MUL:
		return res("(* " + at + " " + bt + ")")
	case token.QUO:
		if so == "Real" {
			return res("(/ " + at + " " + bt + ")")
		}
		if vc.safety {
			vc.oblige("safety:div@"+valName(x), "", reach, not(eq(bt, "0")), x.Pos(), "division by zero", nil)
		}
		vc.assume(reach, not(eq(bt, "0")))
		return res(goDiv(at, bt))
	case token.REM:
		if vc.safety {
			vc.oblige("safety:div@"+valName(x), "", reach, not(eq(bt, "0")), x.Pos(), "division by zero", nil)
		}
		vc.assume(reach, not(eq(bt, "0")))
		return res("(- " + at + " (* " + bt + " " + goDiv(at, bt) + "))")
	case token.AND, token.OR, token.XOR, token.SHL, token.SHR, token.AND_NOT:
		if so == "Bool" {
			switch x.Op {
			case token.AND:
				return res(and(at, bt))
			case token.OR:
				return res(or(at, bt))
			}
		}
		return f.freshOf(x.Type(), "bits", st, reach)
	}
	fail("binop %s", x.Op)
	return nil
}

func goDiv(a, b string) string {
	// Go truncates toward zero; SMT-LIB div rounds toward -inf for positive divisors
	return fmt.Sprintf("(ite (>= %s 0) (div %s %s) (- (div (- %s) %s)))", a, a, b, a, b)
}

func ifaceEq(a, b string) string {
	if b == "niliface" {
		return "(= (itag " + a + ") 0)"
	}
	if a == "niliface" {
		return "(= (itag " + b + ") 0)"
	}
	return fmt.Sprintf("(or (and (= (itag %s) 0) (= (itag %s) 0)) (= %s %s))", a, b, a, b)
}

func (f *frame) execConvert(x *ssa.Convert, st *state, reach string) *sym {
	vc := f.vc
	from, to := vc.w.so.sortOf(x.X.Type()), vc.w.so.sortOf(x.Type())
	a := f.term(x.X)
	switch {
	case from == to && from != "Slice":
		s := &sym{t: a, typ: x.Type()}
		if isUnsigned(x.Type()) && !isUnsigned(x.X.Type()) {
			return f.freshOf(x.Type(), "conv", st, reach)
		}
		return s
	case from == "Int" && to == "Real":
		return &sym{t: "(to_real " + a + ")", typ: x.Type()}
	case from == "Real" && to == "Int":
		return f.freshOf(x.Type(), "conv", st, reach)
	case from == "String" && to == "Slice":
		s := f.freshOf(x.Type(), "bytes", st, reach)
		vc.assume(reach, fmt.Sprintf("(and (= (slen %s) (str.len %s)) (not (= (sbase %s) nil)))", s.t, a, s.t))
		// the text of a freshly converted byte slice is the string it was converted from (str_of names it for
		// contracts of byte-comparing library functions; later in-place mutation of the slice is not tracked)
		if app, ok := vc.ufuncApp("str_of", s.t); ok {
			vc.assume(reach, eq(app, a))
		}
		return s
	case from == "Slice" && to == "String":
		s := f.freshOf(x.Type(), "str", st, reach)
		vc.assume(reach, fmt.Sprintf("(= (str.len %s) (slen %s))", s.t, a))
		return s
	case from == "Slice" && to == "Slice":
		return &sym{t: a, typ: x.Type()}
	}
	return f.freshOf(x.Type(), "conv", st, reach)
}

func (f *frame) ifaceOf(t types.Type, term string, st *state, reach string) string {
	vc := f.vc
	tag := vc.w.so.typeID(t)
	so := vc.w.so.sortOf(t)
	parts := map[string]string{"iref": "nil", "iint": "0", "istr": "\"\"", "ibool": "false", "isl": "nilslice"}
	switch so {
	case "Ref":
		parts["iref"] = term
	case "Int":
		parts["iint"] = term
	case "String":
		parts["istr"] = term
	case "Bool":
		parts["ibool"] = term
	case "Slice":
		parts["isl"] = term
	default:
		// boxed value: fresh reference, contents recoverable through an uninterpreted unbox function
		r := f.newRef(st, reach, "box")
		ub := vc.unboxFn(t)
		vc.assume("true", eq("("+ub+" "+r+")", term))
		parts["iref"] = r
	}
	return fmt.Sprintf("(mk_iface %d %s %s %s %s %s)", tag, parts["iref"], parts["iint"], parts["istr"], parts["ibool"], parts["isl"])
}

func (vc *FnVC) unboxFn(t types.Type) string {
	name := "unbox_" + vc.w.so.typeName(t)
	if !vc.declared[name] {
		vc.declared[name] = true
		vc.emit(fmt.Sprintf("(declare-fun %s (Ref) %s)", name, vc.w.so.sortOf(t)))
	}
	return name
}

func (f *frame) execMakeInterface(x *ssa.MakeInterface, st *state, reach string) *sym {
	vc := f.vc
	v := f.val(x.X)
	t := f.ifaceOf(x.X.Type(), f.symTerm(v), st, reach)
	return &sym{t: vc.define("ifc", "Iface", t), typ: x.Type()}
}

func (f *frame) unpackIface(t types.Type, term string) string {
	vc := f.vc
	switch vc.w.so.sortOf(t) {
	case "Ref":
		return "(iref " + term + ")"
	case "Int":
		return "(iint " + term + ")"
	case "String":
		return "(istr " + term + ")"
	case "Bool":
		return "(ibool " + term + ")"
	case "Slice":
		return "(isl " + term + ")"
	}
	return "(" + vc.unboxFn(t) + " (iref " + term + "))"
}

func (f *frame) execTypeAssert(x *ssa.TypeAssert, st *state, reach string) *sym {
	vc := f.vc
	a := f.term(x.X)
	var okc, val string
	if _, isIface := x.AssertedType.Underlying().(*types.Interface); isIface {
		if it := x.AssertedType.Underlying().(*types.Interface); it.Empty() {
			okc = not(eq("(itag "+a+")", "0"))
		} else {
			okc = vc.fresh("implements", "Bool")
			vc.assume("true", imp(okc, not(eq("(itag "+a+")", "0"))))
		}
		val = a
	} else {
		okc = eq("(itag "+a+")", fmt.Sprint(vc.w.so.typeID(x.AssertedType)))
		val = f.unpackIface(x.AssertedType, a)
	}
	okc = vc.define("taok", "Bool", okc)
	vs := &sym{t: vc.define("ta", vc.w.so.sortOf(x.AssertedType), ite(okc, val, vc.w.so.zero(x.AssertedType))), typ: x.AssertedType}
	vc.wf(reach, vs.t, x.AssertedType, st, 0)
	if x.CommaOk {
		return &sym{typ: x.Type(), tuple: []*sym{vs, {t: okc, typ: types.Typ[types.Bool]}}}
	}
	if vc.safety {
		vc.oblige("safety:assert@"+valName(x.X)+"."+mangle(shortTypeString(x.AssertedType)), "", reach, okc, x.Pos(), "type assertion without comma-ok holds", nil)
	}
	vc.assume(reach, okc)
	return vs
}

func (f *frame) execSlice(x *ssa.Slice, st *state, reach string) *sym {
	vc := f.vc
	base := f.val(x.X)
	lo, hi := "0", ""
	if x.Low != nil {
		lo = f.term(x.Low)
	}
	if x.High != nil {
		hi = f.term(x.High)
	}
	switch u := x.X.Type().Underlying().(type) {
	case *types.Slice:
		s := base.t
		if hi == "" {
			hi = "(slen " + s + ")"
		}
		mx := "(scap " + s + ")"
		if x.Max != nil {
			mx = f.term(x.Max)
		}
		inb := fmt.Sprintf("(and (<= 0 %s) (<= %s %s) (<= %s (scap %s)))", lo, lo, hi, hi, s)
		if vc.safety {
			vc.oblige("safety:slice@"+valName(x.X), "", reach, inb, x.Pos(), "slice bounds in range", nil)
		}
		vc.assume(reach, inb)
		t := fmt.Sprintf("(mk_slice (sbase %s) (+ (soff %s) %s) (- %s %s) (- %s %s))", s, s, lo, hi, lo, mx, lo)
		return &sym{t: vc.define("sl", "Slice", t), typ: x.Type()}
	case *types.Basic: // string
		s := base.t
		if hi == "" {
			hi = "(str.len " + s + ")"
		}
		inb := fmt.Sprintf("(and (<= 0 %s) (<= %s %s) (<= %s (str.len %s)))", lo, lo, hi, hi, s)
		if vc.safety {
			vc.oblige("safety:slice@"+valName(x.X), "", reach, inb, x.Pos(), "string slice bounds in range", nil)
		}
		vc.assume(reach, inb)
		return &sym{t: vc.define("ss", "String", fmt.Sprintf("(str.substr %s %s (- %s %s))", s, lo, hi, lo)), typ: x.Type()}
	case *types.Pointer:
		arr := u.Elem().Underlying().(*types.Array)
		if hi == "" {
			hi = fmt.Sprint(arr.Len())
		}
		inb := fmt.Sprintf("(and (<= 0 %s) (<= %s %s) (<= %s %d))", lo, lo, hi, hi, arr.Len())
		if vc.safety {
			vc.oblige("safety:slice@"+valName(x.X), "", reach, inb, x.Pos(), "array slice bounds in range", nil)
		}
		vc.assume(reach, inb)
		t := fmt.Sprintf("(mk_slice %s %s (- %s %s) (- %d %s))", f.symTerm(base), lo, hi, lo, arr.Len(), lo)
		return &sym{t: vc.define("sl", "Slice", t), typ: x.Type()}
	}
	fail("slice of %s", x.X.Type())
	return nil
}

func (f *frame) execNext(x *ssa.Next, st *state, reach string) *sym {
	vc := f.vc
	tup := x.Type().(*types.Tuple)
	if x.IsString {
		ok := vc.fresh("nextok", "Bool")
		k := f.freshOf(tup.At(1).Type(), "nextk", st, reach)
		v := f.freshOf(tup.At(2).Type(), "nextv", st, reach)
		return &sym{typ: x.Type(), tuple: []*sym{{t: ok, typ: types.Typ[types.Bool]}, k, v}}
	}
	rg, _ := x.Iter.(*ssa.Range)
	rr := f.rangeSt[rg]
	if rr == nil {
		fail("next without range")
	}
	mt := rg.X.Type().Underlying().(*types.Map)
	dk, vk := vc.mapKeys(mt)
	m := rr.m.t
	ks := vc.w.so.sortOf(mt.Key())
	// the visited set is loop-carried ghost state: at a loop header it was replaced by a fresh array
	vis := f.visitedAt(rg, st)
	dom := fmt.Sprintf("(select %s %s)", vc.hget(st, dk), m)
	k := vc.fresh("rk", ks)
	ok := vc.fresh("rok", "Bool")
	// ok  ==> k is an unvisited key of the map;  !ok ==> every key has been visited
	vc.assume(reach, imp(ok, and(not(eq(m, "nil")), "(select "+dom+" "+k+")", not("(select "+vis+" "+k+")"))))
	q := vc.fresh("qk", ks)
	_ = q
	vc.assume(reach, imp(not(ok), fmt.Sprintf("(or (= %s nil) (forall ((qk %s)) (=> (select %s qk) (select %s qk))))", m, ks, dom, vis)))
	nv := vc.define("vis", "(Array "+ks+" Bool)", "(store "+vis+" "+k+" true)")
	f.setVisited(rg, st, nv)
	val := fmt.Sprintf("(select (select %s %s) %s)", vc.hget(st, vk), m, k)
	vs := &sym{t: vc.define("rv", vc.w.so.sortOf(mt.Elem()), val), typ: mt.Elem()}
	vc.wf(reach, vs.t, mt.Elem(), st, 0)
	return &sym{typ: x.Type(), tuple: []*sym{{t: ok, typ: types.Typ[types.Bool]}, {t: k, typ: mt.Key()}, vs}}
}

// The visited set of a map range is kept in the state under a pseudo heap key so that it is merged and
// havocked like any loop-carried value.
func (f *frame) visKey(rg *ssa.Range) string {
	mt := rg.X.Type().Underlying().(*types.Map)
	k := fmt.Sprintf("R|%s|%d", f.vc.w.so.typeName(mt.Key()), rg.Pos())
	return f.vc.regHeap(k, "(Array "+f.vc.w.so.sortOf(mt.Key())+" Bool)")
}

func (f *frame) visitedAt(rg *ssa.Range, st *state) string {
	k := f.visKey(rg)
	if t, ok := st.h[k]; ok {
		return t
	}
	return f.rangeSt[rg].visited
}

func (f *frame) setVisited(rg *ssa.Range, st *state, t string) {
	st.h[f.visKey(rg)] = t
}

// ---------- calls ----------

func staticCalleeName(com *ssa.CallCommon) string {
	if com.IsInvoke() {
		return com.Method.FullName()
	}
	if fn := com.StaticCallee(); fn != nil {
		return nameOf(fn)
	}
	if _, ok := com.Value.(*ssa.Builtin); ok {
		return "builtin:" + com.Value.Name()
	}
	return "dyn:" + types.TypeString(com.Value.Type(), nil)
}

// ordinalOf: rank of this call site among the call sites of the same callee in this function, in source order.
func (f *frame) ordinalOf(com *ssa.CallCommon, pos token.Pos) int {
	if f.callPos == nil {
		f.callPos = map[string][]token.Pos{}
		for _, b := range f.fn.Blocks {
			for _, in := range b.Instrs {
				if ci, ok := in.(ssa.CallInstruction); ok {
					n := staticCalleeName(ci.Common())
					f.callPos[n] = append(f.callPos[n], ci.Pos())
				}
			}
		}
		for _, ps := range f.callPos {
			sort.Slice(ps, func(i, j int) bool { return ps[i] < ps[j] })
		}
	}
	ps := f.callPos[staticCalleeName(com)]
	for i, p := range ps {
		if p == pos {
			return i
		}
	}
	return len(ps)
}

func (f *frame) calleeName(com *ssa.CallCommon) (abs string, callee *ssa.Function) {
	if com.IsInvoke() {
		// a method promoted from an embedded interface (hash.Hash embeds io.Writer) may be specified for the
		// interface it is called through: "(hash.Hash).Write" takes precedence over "(io.Writer).Write"
		if n, ok := com.Value.Type().(*types.Named); ok && n.Obj().Pkg() != nil {
			alt := "(" + n.Obj().Pkg().Path() + "." + n.Obj().Name() + ")." + com.Method.Name()
			if alt != com.Method.FullName() && f.vc.w.contracts[alt] != nil {
				return alt, nil
			}
		}
		return com.Method.FullName(), nil
	}
	if fn := com.StaticCallee(); fn != nil {
		return nameOf(fn), fn
	}
	s := f.vals[com.Value]
	if s != nil && s.clos != nil {
		return nameOf(s.clos.fn), s.clos.fn
	}
	if s != nil && s.bound != nil {
		return nameOf(s.bound.fn), s.bound.fn
	}
	if n, ok := com.Value.Type().(*types.Named); ok {
		return "dyn:" + types.TypeString(n, nil), nil
	}
	if ts := types.TypeString(com.Value.Type(), nil); ts == "func()" {
		return "dyn:func", nil // written "fn dyn:func()" in contract files
	}
	return "dyn:" + types.TypeString(com.Value.Type(), nil), nil
}

func (f *frame) calleeContract(com *ssa.CallCommon) (*Contract, *ssa.Function) {
	abs, callee := f.calleeName(com)
	return f.vc.w.contractOf(abs), callee
}

func (f *frame) relCallee(abs string) string {
	r := relName(abs, f.vc.pkgPath)
	r = strings.ReplaceAll(r, repoMod+"/internal/", "")
	r = strings.ReplaceAll(r, repoMod+"/", "")
	return r
}

func (f *frame) execGo(x *ssa.Go, st *state, reach string) {
	vc := f.vc
	com := x.Common()
	abs, callee := f.calleeName(com)
	rel := f.relCallee(abs)
	vc.callsSeen["go "+rel]++
	vc.callsSeen["go"]++
	c := vc.w.contractOf(abs)
	args, binds := f.callArgs(com, callee)
	f.curOrd = f.ordinalOf(com, x.Pos())
	f.siteAsserts("go", rel, "before", args, nil, st, reach, x.Pos())
	if c == nil {
		// a goroutine nobody specified may do anything, at any later time
		if vc.w.notesOn() {
			vc.w.note("%s: go %s without contract (modifies *)", vc.fnName, rel)
		}
		vc.havocAll(st, reach)
		return
	}
	env := f.calleeEnv(c, callee, args, binds, st, st)
	ord := f.ordinalOf(com, x.Pos())
	for i, r := range c.Requires {
		label := r.Label
		if label == "" {
			label = fmt.Sprintf("r%d", i)
		}
		vc.oblige(fmt.Sprintf("pre@go_%s#%d", rel, ord), label, reach, env.boolExpr(r.E), x.Pos(), r.Src, nil)
	}
	// ghost effects of spawning (e.g. a launch counter)
	if len(c.SpawnMod) > 0 || len(c.SpawnEns) > 0 {
		pre := st.clone()
		envPre := f.calleeEnv(c, callee, args, binds, pre, pre)
		f.applyMods(c.SpawnMod, envPre, st, reach, rel)
		envPost := f.calleeEnv(c, callee, args, binds, st, pre)
		for _, e := range c.SpawnEns {
			vc.assume(reach, envPost.boolExpr(e.E))
		}
	}
}

func (f *frame) applyMods(mods []ModLoc, envPre *env, st *state, reach, rel string) {
	vc := f.vc
	for _, m := range mods {
		switch {
		case m.Star:
			vc.havocAll(st, reach)
		case m.Ghost != "":
			k, so, ok := vc.ghostKey(m.Ghost)
			if !ok {
				fail("%s: unknown ghost %s", rel, m.Ghost)
			}
			st.h[k] = vc.fresh("g_"+m.Ghost, so)
		case m.Heap != "":
			for _, k := range envPre.heapKeysOfSpec(m.Heap) {
				vc.havocKey(st, k)
			}
		default:
			if _, isContents := m.Place.(*ECall); !isContents {
				if ps := envPre.value(m.Place); ps.pl != nil && ps.t == "" && ps.pl.kind == plElem {
					// a field of one slice/array element: only that element's field becomes unknown
					nv := f.freshOf(ps.pl.typ, "hv_elem", nil, reach)
					pre := st.clone()
					vc.writePlace(st, ps.pl, nv.t)
					k := vc.elemKey(ps.pl.elemT)
					st.h[k] = vc.define("h_"+k, vc.heapSort(k), ite(reach, st.h[k], vc.hget(pre, k)))
					continue
				}
			}
			for _, kl := range envPre.modPlace(m.Place) {
				so := vc.heapSort(kl.key)
				if kl.ref == "" || !strings.HasPrefix(so, "(Array Ref ") {
					vc.havocKey(st, kl.key)
				} else {
					inner := so[len("(Array Ref ") : len(so)-1]
					vc.hset(st, kl.key, "(store "+vc.hget(st, kl.key)+" "+kl.ref+" "+vc.freshHeap("hv", inner, "")+")")
				}
			}
		}
	}
}

func (f *frame) callArgs(com *ssa.CallCommon, callee *ssa.Function) (args []*sym, binds []*sym) {
	if com.IsInvoke() {
		args = append(args, f.argSym(com.Value))
	} else if s := f.vals[com.Value]; s != nil && s.bound != nil {
		args = append(args, s.bound.recv)
	} else if s != nil && s.clos != nil {
		binds = s.clos.bindings
	}
	for _, a := range com.Args {
		args = append(args, f.argSym(a))
	}
	return
}

func (f *frame) execCall(instr ssa.Instruction, com *ssa.CallCommon, st *state, reach string, pos token.Pos, rt types.Type) *sym {
	if b, ok := com.Value.(*ssa.Builtin); ok {
		return f.execBuiltin(b, com, st, reach, pos, rt)
	}
	abs, callee := f.calleeName(com)
	args, binds := f.callArgs(com, callee)
	f.curOrd = f.ordinalOf(com, pos)
	f.curCall = instr
	defer func() { f.curCall = nil }()
	return f.applyCall(abs, callee, args, binds, st, reach, pos, rt)
}

func (f *frame) applyCall(abs string, callee *ssa.Function, args, binds []*sym, st *state, reach string, pos token.Pos, rt types.Type) *sym {
	vc := f.vc
	rel := f.relCallee(abs)
	vc.callsSeen[rel]++
	c := vc.w.contractOf(abs)
	loopHelper := c == nil && vc.splice != nil && vc.splice.helpers[callee] && f.fn == vc.fn && !f.inlined && f.curCall != nil
	if loopHelper {
		if _, planned := vc.splice.callBase[f.curCall]; !planned {
			loopHelper = false
		}
	}
	if !(c == nil && (loopHelper || f.smallHelper(callee)) && vc.depth < 3) {
		// a helper executed in place is not a call boundary: the environment acts where the calls inside it are
		f.interfere(st, reach)
	}
	f.siteAsserts("call", rel, "before", args, nil, st, reach, pos)
	var res *sym
	switch {
	case abs == "fmt.Sprintf" && f.nativeSprintf(args, st, reach) != nil:
		vc.w.assumedUsed["native model: fmt.Sprintf with a constant format of %s/%d verbs = concatenation"] = true
		res = f.nativeSprintf(args, st, reach)
	case c == nil && callee != nil && callee.Parent() != nil && len(callee.Blocks) > 0 && vc.depth < 3:
		res = f.inlineCall(callee, args, binds, st, reach, rt)
	case c != nil && c.Inline && callee != nil && len(callee.Blocks) > 0 && vc.depth < 3:
		res = f.inlineCall(callee, args, binds, st, reach, rt)
	case loopHelper && vc.depth < 3:
		// a helper that now holds loops of this function's contract: executed in place, its loops borrowed (loops.go)
		f.borrowBase = vc.splice.callBase[f.curCall]
		f.borrowNext = true
		res = f.inlineCall(callee, args, binds, st, reach, rt)
	case c == nil && f.smallHelper(callee) && vc.depth < 3:
		// a small loop-free function of the same package that nobody gave a contract to (typically a helper
		// split off a function under contract): its body is executed in place
		res = f.inlineCall(callee, args, binds, st, reach, rt)
	case c == nil && callee == nil && f.funcSetCall(abs, args, st, reach, pos, rt) != nil:
		res = f.lastFuncSetResult
	case c == nil && valueOnlyLibrary(callee):
		// a library function of a side-effect-free package that takes nothing but values: it cannot reach the
		// modelled state; its result is unconstrained
		vc.w.assumedUsed["default: functions of strings, strconv, unicode, math, path, path/filepath (pure part), errors, html, net/url, encoding/hex, encoding/base64 and time (clock reads and value methods) whose receiver and parameters are plain values leave the modelled state unchanged; results unconstrained"] = true
		for _, a := range args {
			f.symTerm(a)
		}
		res = f.freshOf(rt, "r_"+shortName(rel), st, reach)
	case c == nil:
		// unknown callee: everything may change
		if vc.w.notesOn() {
			vc.w.note("%s: call to %s without contract (modifies *)", vc.fnName, rel)
		}
		for _, a := range args {
			f.symTerm(a)
		}
		preH := st.clone()
		vc.havocAll(st, reach)
		f.preserveLocals(preH, st, args)
		res = f.freshOf(rt, "r_"+shortName(rel), st, reach)
	default:
		res = f.applyContract(c, rel, callee, args, binds, st, reach, pos, rt)
	}
	var results []*sym
	if res != nil {
		if res.tuple != nil {
			results = res.tuple
		} else {
			results = []*sym{res}
		}
	}
	f.siteAsserts("call", rel, "after", args, results, st, reach, pos)
	return res
}

func shortName(rel string) string {
	if i := strings.LastIndex(rel, "."); i >= 0 {
		return rel[i+1:]
	}
	return rel
}

func (f *frame) applyContract(c *Contract, rel string, callee *ssa.Function, args, binds []*sym, st *state, reach string, pos token.Pos, rt types.Type) *sym {
	vc := f.vc
	if len(c.Params) != len(args) {
		vc.oblige("bind", "params_"+mangle(rel), "true", "false", pos, fmt.Sprintf("contract of %s names %d parameters, call passes %d", rel, len(c.Params), len(args)), nil).Trivial = false
		vc.havocAll(st, reach)
		return f.freshOf(rt, "r", st, reach)
	}
	pre := st.clone()
	envPre := f.calleeEnv(c, callee, args, binds, pre, pre)
	ord := f.curOrd
	if !f.vcTrusted() {
		for i, r := range c.Requires {
			label := r.Label
			if label == "" {
				label = fmt.Sprintf("r%d", i)
			}
			if vc.refining {
				// the implementation's precondition speaks about the receiver's fields (an object invariant that the
				// interface cannot state): assumed here, established by the constructor's contract
				vc.assume(reach, envPre.boolExpr(r.E))
				continue
			}
			vc.oblige(fmt.Sprintf("pre@%s#%d", rel, ord), label, reach, envPre.boolExpr(r.E), pos, r.Src, nil)
		}
		// implicit: pointer parameters of a callee under contract are non-nil
		if vc.safety && callee != nil && !c.Assumed {
			for i, p := range c.Params {
				if i < len(args) && !c.Nullable[p] {
					if _, isPtr := args[i].typ.Underlying().(*types.Pointer); isPtr && args[i].pl == nil {
						vc.oblige(fmt.Sprintf("pre@%s#%d", rel, ord), "nonnil_"+p, reach, not(eq(args[i].t, "nil")), pos, "pointer argument "+p+" is not nil", nil)
					}
				}
			}
		}
	}
	// frame
	f.applyMods(c.Modifies, envPre, st, reach, rel)
	if c.CallsBack != "" {
		f.applyCallbackFrame(c, rel, args, pre, st, reach, pos)
	}

	if st.epoch != pre.epoch {
		// a `modifies *` callee cannot reach this function's non-escaping locals
		f.preserveLocals(pre, st, args)
	}
	// results: only a callee that declares allocation yields values known to be allocated in the post-state;
	// otherwise allocation facts about results come from the callee's postconditions alone
	var res *sym
	wfSt := st
	if !declaresAlloc(c) {
		wfSt = nil
	}
	if c.Pure {
		res = f.pureResult(c, rel, args, rt, wfSt, reach)
	} else {
		res = f.freshOf(rt, "r_"+shortName(rel), wfSt, reach)
	}
	var results []*sym
	if res.tuple != nil {
		results = res.tuple
	} else if tup, ok := rt.(*types.Tuple); !ok || tup.Len() > 0 {
		results = []*sym{res}
	}
	if c.RetClosure != "" && len(results) == 1 {
		if fn := vc.w.funcs[absName(c.RetClosure, c.Pkg)]; fn != nil {
			ci := &closInfo{fn: fn}
			for _, fv := range fn.FreeVars {
				ci.bindings = append(ci.bindings, f.freshOf(fv.Type(), "capt_"+fv.Name(), nil, reach))
			}
			results[0].clos = ci
			vc.assume(reach, not(eq(results[0].t, "nil")))
		} else {
			vc.oblige("bind", "returnsclosure_"+mangle(c.RetClosure), "true", "false", pos, "returnsclosure "+c.RetClosure+": no such function", nil).Trivial = false
		}
	}
	if c.NonNilRes && len(results) > 0 {
		switch vc.w.so.sortOf(results[0].typ) {
		case "Ref":
			vc.assume(reach, not(eq(results[0].t, "nil")))
		case "Iface":
			vc.assume(reach, not(eq("(itag "+results[0].t+")", "0")))
		}
	}
	if so := ""; c.FreshRes && len(results) > 0 {
		so = vc.w.so.sortOf(results[0].typ)
		if so == "Ref" || so == "Iface" {
			// fresh: not allocated before the call, allocated after it (for an interface result: the object it
			// holds).  A callee whose frame includes heap(alloc) has had the allocation set havocked
			// (monotonically): the result is allocated there; otherwise the result is added to the unchanged set.
			obj := results[0].t
			if so == "Iface" {
				obj = "(iref " + results[0].t + ")"
			}
			aPre := vc.hget(pre, vc.allocKey())
			vc.assume(reach, fmt.Sprintf("(and (not (= %s nil)) (not (select %s %s)))", obj, aPre, obj))
			a := vc.hget(st, vc.allocKey())
			if a != aPre {
				vc.assume(reach, fmt.Sprintf("(select %s %s)", a, obj))
			} else {
				vc.hset(st, vc.allocKey(), fmt.Sprintf("(store %s %s true)", a, obj))
			}
		}
	}
	if len(c.Results) > 0 && len(c.Results) != len(results) {
		vc.oblige("bind", "results_"+mangle(rel), "true", "false", pos, fmt.Sprintf("contract of %s names %d results, call yields %d", rel, len(c.Results), len(results)), nil).Trivial = false
		return res
	}
	envPost := f.calleeEnv(c, callee, args, binds, st, pre)
	for i, rn := range c.Results {
		envPost.vars[rn] = results[i]
	}
	// `records` define ghosts at the callee's exit; its postconditions may speak about the recorded values
	f.applyRecords(c, envPost, st, reach)
	for _, e := range c.Ensures {
		vc.assume(reach, envPost.boolExpr(e.E))
	}
	return res
}

func (f *frame) applyRecords(c *Contract, envPost *env, st *state, reach string) {
	vc := f.vc
	for _, r := range c.Records {
		k, so, ok := vc.ghostKey(r.Ghost)
		if !ok {
			fail("records: unknown ghost %s", r.Ghost)
		}
		nv := vc.fresh("g_"+r.Ghost, so)
		v := f.recordValue(envPost, r)
		if v == nil {
			// the recorded expression names locals of the callee: at a call site the ghost is only known
			// through the callee's postconditions
			st.h[k] = vc.define("g_"+r.Ghost, so, ite(reach, nv, vc.hget(st, k)))
			continue
		}
		if mt, isMap := v.typ.Underlying().(*types.Map); isMap && v.bound == nil && strings.HasPrefix(so, "(Array ") {
			// a Go map recorded into a (total) ghost map: the ghost holds what a lookup yields for every key
			ks := vc.w.so.sortOf(mt.Key())
			val, _ := f.mapLookup(envPost.cur, mt, v.t, "rk")
			vc.assume(reach, fmt.Sprintf("(forall ((rk %s)) (! (= (select %s rk) %s) :pattern ((select %s rk))))", ks, nv, val, nv))
		} else {
			vc.assume(reach, eq(nv, v.t))
		}
		// on paths where the call is not reached the ghost keeps its value
		st.h[k] = vc.define("g_"+r.Ghost, so, ite(reach, nv, vc.hget(st, k)))
	}
}

func (f *frame) vcTrusted() bool { return false }

func (f *frame) pureResult(c *Contract, rel string, args []*sym, rt types.Type, st *state, reach string) *sym {
	vc := f.vc
	if _, isTup := rt.(*types.Tuple); isTup {
		return f.freshOf(rt, "r", st, reach)
	}
	name := "uf_" + mangle(rel)
	var sorts, terms []string
	for _, a := range args {
		sorts = append(sorts, vc.w.so.sortOf(a.typ))
		terms = append(terms, f.symTerm(a))
	}
	if !vc.declared[name] {
		vc.declared[name] = true
		vc.emit(fmt.Sprintf("(declare-fun %s (%s) %s)", name, strings.Join(sorts, " "), vc.w.so.sortOf(rt)))
	}
	t := name
	if len(terms) > 0 {
		t = "(" + name + " " + strings.Join(terms, " ") + ")"
	}
	s := &sym{t: vc.define("pr", vc.w.so.sortOf(rt), t), typ: rt}
	vc.wf(reach, s.t, rt, st, 0)
	return s
}

// calleeEnv builds the spec environment of a callee contract at a call site.
func (f *frame) calleeEnv(c *Contract, callee *ssa.Function, args, binds []*sym, cur, old *state) *env {
	e := &env{f: f, vc: f.vc, vars: map[string]*sval{}, cur: cur, old: old, pkgPath: c.Pkg}
	for i, p := range c.Params {
		if i < len(args) {
			e.vars[p] = args[i]
		}
	}
	if callee != nil {
		if e.pkgPath == "" && callee.Pkg != nil {
			e.pkgPath = callee.Pkg.Pkg.Path()
		}
		for i, fv := range callee.FreeVars {
			if i < len(binds) {
				e.vars["&"+fv.Name()] = binds[i]
			}
		}
	}
	return e
}

func (f *frame) calleeTypeEnv(c *Contract, com *ssa.CallCommon, callee *ssa.Function) *env {
	e := &env{f: f, vc: f.vc, vars: map[string]*sval{}, cur: &state{h: map[string]string{}}, pkgPath: c.Pkg, typesOnly: true}
	var types_ []types.Type
	if com.IsInvoke() {
		types_ = append(types_, com.Value.Type())
	} else if callee != nil && callee.Signature.Recv() != nil && len(com.Args) < len(c.Params) {
		types_ = append(types_, callee.Signature.Recv().Type())
	}
	for _, a := range com.Args {
		types_ = append(types_, a.Type())
	}
	for i, p := range c.Params {
		if i < len(types_) {
			e.vars[p] = &sym{t: "nil", typ: types_[i]}
		}
	}
	if callee != nil {
		for _, fv := range callee.FreeVars {
			e.vars["&"+fv.Name()] = &sym{t: "nil", typ: fv.Type()}
		}
	}
	return e
}

func (f *frame) inlineCall(callee *ssa.Function, args, binds []*sym, st *state, reach string, rt types.Type) *sym {
	vc := f.vc
	vc.depth++
	defer func() { vc.depth-- }()
	sub := vc.newFrame(callee)
	sub.inlined = true
	sub.oldSt = f.oldSt
	if f.borrowNext {
		f.borrowNext = false
		sub.borrow = true
		for _, li := range sub.loops {
			li.ordinal += f.borrowBase
		}
	}
	if len(args) != len(callee.Params) {
		fail("inline %s: %d args for %d params", callee.String(), len(args), len(callee.Params))
	}
	for i, p := range callee.Params {
		sub.vals[p] = args[i]
	}
	for i, fv := range callee.FreeVars {
		if i < len(binds) {
			sub.vals[fv] = binds[i]
		} else {
			sub.vals[fv] = f.freshOf(fv.Type(), "fv", st, reach)
		}
	}
	work := st.clone()
	sub.run(work, reach)
	exitReach, results, exitSt := sub.mergeReturns()
	if exitSt != nil {
		// control continues after the call only if the callee returned: what holds on its way out (the exit
		// condition of a loop, the branch that reaches the return) holds for the caller from here on
		vc.assume(reach, exitReach)
	}
	if exitSt == nil {
		// callee never returns (panics on every path)
		return f.freshOf(rt, "noret", st, reach)
	}
	st.adopt(exitSt)
	for _, u := range sub.vc.unsup {
		_ = u
	}
	if tup, ok := rt.(*types.Tuple); ok {
		if tup.Len() == 0 {
			return &sym{typ: rt}
		}
		return &sym{typ: rt, tuple: results}
	}
	if len(results) == 1 {
		return results[0]
	}
	return &sym{typ: rt, tuple: results}
}

func (f *frame) runDefers(st *state, reach string) {
	vc := f.vc
	for i := len(f.defers) - 1; i >= 0; i-- {
		d := f.defers[i]
		com := d.instr.Common()
		guard := and(reach, d.armed)
		pre := st.clone()
		var rt types.Type = types.NewTuple()
		if sig, ok := com.Value.Type().Underlying().(*types.Signature); ok && !com.IsInvoke() {
			rt = sig.Results()
		} else if com.IsInvoke() {
			rt = com.Method.Type().(*types.Signature).Results()
		}
		if rt.(*types.Tuple).Len() == 1 {
			rt = rt.(*types.Tuple).At(0).Type()
		}
		if b, ok := com.Value.(*ssa.Builtin); ok {
			_ = b
			continue
		}
		var abs string
		var callee *ssa.Function
		var args, binds []*sym
		if com.IsInvoke() {
			abs = com.Method.FullName()
			args = append([]*sym{d.fnsym}, d.args...)
		} else if fn := com.StaticCallee(); fn != nil {
			abs, callee = nameOf(fn), fn
			args = d.args
			if d.fnsym != nil && d.fnsym.clos != nil {
				binds = d.fnsym.clos.bindings
			}
		} else if d.fnsym != nil && d.fnsym.clos != nil {
			abs, callee = nameOf(d.fnsym.clos.fn), d.fnsym.clos.fn
			args, binds = d.args, d.fnsym.clos.bindings
		} else if d.fnsym != nil && d.fnsym.bound != nil {
			abs, callee = nameOf(d.fnsym.bound.fn), d.fnsym.bound.fn
			args = append([]*sym{d.fnsym.bound.recv}, d.args...)
		} else {
			abs, _ = f.calleeName(com)
			args = d.args
		}
		f.curOrd = f.ordinalOf(com, d.instr.Pos())
		f.applyCall(abs, callee, args, binds, st, guard, d.instr.Pos(), rt)
		m := vc.mergeStates([]string{d.armed, "true"}, []*state{st, pre})
		st.adopt(m)
	}
}

func (f *frame) execBuiltin(b *ssa.Builtin, com *ssa.CallCommon, st *state, reach string, pos token.Pos, rt types.Type) *sym {
	vc := f.vc
	so := vc.w.so
	switch b.Name() {
	case "len":
		a := f.val(com.Args[0])
		switch u := com.Args[0].Type().Underlying().(type) {
		case *types.Slice:
			return &sym{t: "(slen " + a.t + ")", typ: rt}
		case *types.Basic:
			return &sym{t: "(str.len " + a.t + ")", typ: rt}
		case *types.Map:
			s := f.freshOf(rt, "maplen", st, reach)
			vc.assume(reach, "(>= "+s.t+" 0)")
			return s
		case *types.Array:
			return &sym{t: fmt.Sprint(u.Len()), typ: rt}
		case *types.Pointer:
			if arr, ok := u.Elem().Underlying().(*types.Array); ok {
				return &sym{t: fmt.Sprint(arr.Len()), typ: rt}
			}
		case *types.Chan:
			s := f.freshOf(rt, "chanlen", st, reach)
			vc.assume(reach, "(>= "+s.t+" 0)")
			return s
		}
	case "cap":
		a := f.val(com.Args[0])
		if _, ok := com.Args[0].Type().Underlying().(*types.Slice); ok {
			return &sym{t: "(scap " + a.t + ")", typ: rt}
		}
		return f.freshOf(rt, "cap", st, reach)
	case "append":
		return f.execAppend(com, st, reach, rt)
	case "copy":
		dst := f.val(com.Args[0])
		if sl, ok := com.Args[0].Type().Underlying().(*types.Slice); ok {
			ek := vc.elemKey(sl.Elem())
			e := vc.hget(st, ek)
			vc.hset(st, ek, fmt.Sprintf("(store %s (sbase %s) %s)", e, dst.t, vc.fresh("copied", "(Array Int "+so.sortOf(sl.Elem())+")")))
		}
		n := f.freshOf(rt, "ncopied", st, reach)
		vc.assume(reach, "(>= "+n.t+" 0)")
		return n
	case "delete":
		m := f.term(com.Args[0])
		k := f.term(com.Args[1])
		mt := com.Args[0].Type().Underlying().(*types.Map)
		dk, _ := vc.mapKeys(mt)
		d := vc.hget(st, dk)
		vc.hset(st, dk, ite(eq(m, "nil"), d, fmt.Sprintf("(store %s %s (store (select %s %s) %s false))", d, m, d, m, k)))
		return &sym{typ: rt}
	case "print", "println", "close", "clear":
		return &sym{typ: rt}
	case "recover":
		return &sym{t: "niliface", typ: rt}
	case "min", "max":
		a, c := f.term(com.Args[0]), f.term(com.Args[1])
		if len(com.Args) == 2 && so.sortOf(rt) == "Int" {
			if b.Name() == "min" {
				return &sym{t: vc.define("min", "Int", ite("(<= "+a+" "+c+")", a, c)), typ: rt}
			}
			return &sym{t: vc.define("max", "Int", ite("(>= "+a+" "+c+")", a, c)), typ: rt}
		}
	}
	return f.freshOf(rt, "builtin_"+b.Name(), st, reach)
}

// append is modelled as copy into a fresh backing array.
func (f *frame) execAppend(com *ssa.CallCommon, st *state, reach string, rt types.Type) *sym {
	vc := f.vc
	so := vc.w.so
	s := f.val(com.Args[0]).t
	sl := rt.Underlying().(*types.Slice)
	ek := vc.elemKey(sl.Elem())
	es := so.sortOf(sl.Elem())
	e := vc.hget(st, ek)
	nb := f.newRef(st, reach, "appended")
	var addLen string
	var content string
	old := fmt.Sprintf("(select %s (sbase %s))", e, s)
	// shifted view of the old contents when the offset may be non-zero
	shifted := vc.fresh("shifted", "(Array Int "+es+")")
	vc.assume(reach, fmt.Sprintf("(=> (= (soff %s) 0) (= %s %s))", s, shifted, old))
	vc.assume(reach, fmt.Sprintf("(forall ((i Int)) (! (=> (and (<= 0 i) (< i (slen %s))) (= (select %s i) (select %s (sidx %s i)))) :pattern ((select %s i))))", s, shifted, old, s, shifted))
	// what is appended
	argT := com.Args[1].Type().Underlying()
	if _, isStr := argT.(*types.Basic); isStr {
		// append([]byte, string...)
		x := f.term(com.Args[1])
		addLen = "(str.len " + x + ")"
		content = vc.fresh("appcontent", "(Array Int "+es+")")
		vc.assume(reach, fmt.Sprintf("(forall ((i Int)) (=> (and (<= 0 i) (< i (slen %s))) (= (select %s i) (select %s i))))", s, content, shifted))
	} else {
		x := f.val(com.Args[1]).t
		addLen = "(slen " + x + ")"
		// the common shape: the variadic pack is a fresh one-element array
		xold := fmt.Sprintf("(select %s (sbase %s))", e, x)
		_ = xold
		content = vc.fresh("appcontent", "(Array Int "+es+")")
		// len(x) == 1: content = store(shifted, len(s), x[0])
		vc.assume(reach, fmt.Sprintf("(=> (= (slen %s) 1) (= %s (store %s (slen %s) (select %s (sidx %s 0)))))", x, content, shifted, s, xold, x))
		vc.assume(reach, fmt.Sprintf("(=> (= (slen %s) 0) (= %s %s))", x, content, shifted))
		vc.assume(reach, fmt.Sprintf("(=> (> (slen %s) 1) (forall ((i Int)) (! (and (=> (and (<= 0 i) (< i (slen %s))) (= (select %s i) (select %s i))) (=> (and (<= (slen %s) i) (< i (+ (slen %s) (slen %s)))) (= (select %s i) (select %s (sidx %s (- i (slen %s))))))) :pattern ((select %s i)))))",
			x, s, content, shifted, s, s, x, content, xold, x, s, content))
	}
	vc.hset(st, ek, fmt.Sprintf("(store %s %s %s)", e, nb, content))
	ln := vc.define("applen", "Int", fmt.Sprintf("(+ (slen %s) %s)", s, addLen))
	if vc.usesInslice() {
		// membership lemmas for the spec builtin inslice (true of every append; not derivable by the solver, which
		// does no induction): what was in s from lo on is in the result from lo on, and a single appended element is
		// in the result from every lo up to the old length
		fn := vc.memFn(sl.Elem())
		vc.assume(reach, fmt.Sprintf("(forall ((lo Int) (k %s)) (! (=> (%s %s (soff %s) (slen %s) lo k) (%s %s 0 %s lo k)) :pattern ((%s %s (soff %s) (slen %s) lo k))))",
			es, fn, old, s, s, fn, content, ln, fn, old, s, s))
		if _, isStr := argT.(*types.Basic); !isStr {
			x := f.val(com.Args[1]).t
			xold := fmt.Sprintf("(select %s (sbase %s))", e, x)
			vc.assume(reach, fmt.Sprintf("(=> (= (slen %s) 1) (forall ((lo Int)) (! (=> (and (<= 0 lo) (<= lo (slen %s))) (%s %s 0 %s lo (select %s (sidx %s 0)))) :pattern ((%s %s 0 %s lo (select %s (sidx %s 0)))))))",
				x, s, fn, content, ln, xold, x, fn, content, ln, xold, x))
		}
	}
	cp := vc.fresh("appcap", "Int")
	vc.assume(reach, "(>= "+cp+" "+ln+")")
	return &sym{t: vc.define("app", "Slice", fmt.Sprintf("(mk_slice %s 0 %s %s)", nb, ln, cp)), typ: rt}
}

// ---------- site assertions ----------

func (f *frame) siteAsserts(kind, rel, when string, args, results []*sym, st *state, reach string, pos token.Pos) {
	// inside a helper executed in place (no contract of its own) the site assertions of the function under
	// verification apply, except those addressed to a numbered site of that function
	inHelper := f.c == nil && f.inlined && f.fn != nil && f.fn.Parent() == nil
	if f.c == nil && !inHelper {
		return
	}
	vc := f.vc
	c := vc.c
	if c == nil {
		return
	}
	name := rel
	if kind == "go" {
		name = "go"
	}
	for _, sc := range c.Sites {
		if sc.Kind != "assert"+when {
			continue
		}
		if sc.Callee != name && sc.Callee != rel && !(kind == "go" && sc.Callee == "go "+rel) {
			continue
		}
		ord := f.curOrd
		if sc.Ord >= 0 && (sc.Ord != ord || inHelper) {
			continue
		}
		vc.sitesHit[sc]++
		e := vc.topEnv(f, st)
		e.usePoint()
		for i, a := range args {
			e.vars[fmt.Sprintf("arg%d", i)] = a
		}
		for i, r := range results {
			e.vars[fmt.Sprintf("res%d", i)] = r
		}
		label := sc.Label
		if label == "" {
			label = "s"
		}
		t := e.boolExpr(sc.E)
		vc.oblige(fmt.Sprintf("site@%s#%d", mangleKeep(sc.Callee), ord), label, reach, t, pos, sc.Src, sc.Props)
		// assert-then-assume: what has been asserted here may be used by everything that follows (each obligation's
		// script contains only the commands emitted before it, so an assertion never helps to prove itself) — but only
		// when the assertion is itself checked in this run: in a per-property check an assertion that belongs to
		// another property is not, and assuming it would let its failure hide this property's
		ap := sc.Props
		if ap == nil {
			ap = c.Props
		}
		if vc.w.curProp == "" || hasProp(ap, vc.w.curProp) {
			vc.assume(reach, t)
		}
	}
}

func mangleKeep(s string) string {
	return strings.ReplaceAll(s, " ", "_")
}

// topEnv: spec environment with the names of the function under verification, even inside inlined frames.
func (vc *FnVC) topEnv(f *frame, st *state) *env {
	top := f
	for top.parent() != nil {
		top = top.parent()
	}
	e := top.env(st, top.oldSt)
	// names of the current (possibly inlined closure) frame shadow nothing but add free variables
	if f != top {
		if f.fn != nil && f.fn.Parent() == nil {
			e.sub, e.subBlock, e.subIdx = f, f.curBlock, f.curIdx
		}
		for i, fv := range f.fn.FreeVars {
			_ = i
			if s, ok := f.vals[fv]; ok {
				if _, exists := e.vars["&"+fv.Name()]; !exists {
					e.vars["&"+fv.Name()] = s
				}
			}
		}
		for _, p := range f.fn.Params {
			if s, ok := f.vals[p]; ok {
				if _, exists := e.vars[p.Name()]; !exists {
					e.vars[p.Name()] = s
				}
			}
		}
	}
	return e
}

var topFrames = map[*FnVC]*frame{}

func (f *frame) parent() *frame {
	if !f.inlined {
		return nil
	}
	return topFrames[f.vc]
}

// interfere applies the rely of the function (if any) before an atomic action.
func (f *frame) interfere(st *state, reach string) {
	vc := f.vc
	if vc.relyDef == nil {
		return
	}
	d := vc.relyDef
	pre := st.clone()
	// havoc the heaps the rely declares through its "uses=" list (heap specs) — by convention the pred's
	// Uses field holds modifies locations in heap(...) / ghost form
	for _, u := range d.Uses {
		e := f.env(st, st)
		e.pkgPath = d.Pkg
		if k, so, ok := vc.ghostKey(u); ok {
			st.h[k] = vc.fresh("g_"+u, so)
			continue
		}
		for _, k := range e.heapKeysOfSpec(u) {
			st.h[k] = vc.fresh("h_"+k, vc.heapSort(k))
		}
	}
	e := f.env(st, pre)
	e.pkgPath = d.Pkg
	top := f
	if p := f.parent(); p != nil {
		top = p
	}
	var args []Expr
	for _, b := range d.Params {
		args = append(args, &EIdent{b.Name})
		if _, ok := top.names[b.Name]; !ok {
			if _, captured := top.names["&"+b.Name]; !captured {
				fail("interference %s: parameter %s is not a name of %s", d.Name, b.Name, vc.fnName)
			}
		}
	}
	for k, v := range top.names {
		e.vars[k] = v
	}
	vc.assume(reach, e.boolExpr(&ECall{F: d.Name, Args: args}))
}

func sortedKeys(m map[string]bool) []string {
	var ks []string
	for k := range m {
		ks = append(ks, k)
	}
	sort.Strings(ks)
	return ks
}

// constArray: an array that maps every index to the given term.  Literal values use (as const ...); other
// terms (nil, zero structs) use a declared array with a quantified axiom, which every installed solver accepts.
func (vc *FnVC) constArray(idxSort, elemSort, term string) string {
	literal := term == "true" || term == "false" || term == "0" || term == "\"\"" || term == "0.0"
	if literal {
		return fmt.Sprintf("((as const (Array %s %s)) %s)", idxSort, elemSort, term)
	}
	name := "constarr_" + mangle(idxSort+"_"+elemSort+"_"+term)
	if len(name) > 80 {
		name = name[:80]
	}
	if !vc.declared[name] {
		vc.declared[name] = true
		// expanded per solver when the script is written: z3 takes (as const ...) over any term, cvc5 only over
		// values, so cvc5 gets a declared array with a quantified axiom
		vc.emit(fmt.Sprintf(";;CONSTARR %s\t%s\t%s\t%s", name, idxSort, elemSort, term))
	}
	return name
}

// nativeSprintf models fmt.Sprintf(format, args...) when the format is a string literal made of plain text and
// %s / %d / %v verbs: with exactly as many arguments as verbs, a string argument under %s or %v prints as itself and
// an int argument under %d or %v in decimal; anything else stays unconstrained.
func (f *frame) nativeSprintf(args []*sym, st *state, reach string) *sym {
	vc := f.vc
	if len(args) != 2 || !strings.HasPrefix(args[0].t, "\"") || strings.Contains(args[0].t, "\\u{") {
		return nil
	}
	format := strings.ReplaceAll(args[0].t[1:len(args[0].t)-1], "\"\"", "\"")
	var lits []string
	var verbs []byte
	cur := ""
	for i := 0; i < len(format); i++ {
		if format[i] != '%' {
			cur += string(format[i])
			continue
		}
		if i+1 >= len(format) {
			return nil
		}
		switch format[i+1] {
		case '%':
			cur += "%"
		case 's', 'd', 'v', 'x':
			lits = append(lits, cur)
			cur = ""
			verbs = append(verbs, format[i+1])
		default:
			return nil
		}
		i++
	}
	lits = append(lits, cur)
	if len(verbs) == 0 {
		return nil
	}
	sl := args[1].t
	slT, ok := args[1].typ.Underlying().(*types.Slice)
	if !ok {
		return nil
	}
	ek := vc.elemKey(slT.Elem())
	strID := vc.w.so.typeID(types.Typ[types.String])
	intID := vc.w.so.typeID(types.Typ[types.Int])
	parts := []string{}
	for i, v := range verbs {
		if lits[i] != "" {
			parts = append(parts, smtString(lits[i]))
		}
		el := vc.define("fmtarg", "Iface", fmt.Sprintf("(select (select %s (sbase %s)) (sidx %s %d))", vc.hget(st, ek), sl, sl, i))
		other := vc.fresh("fmtother", "String")
		asStr := fmt.Sprintf("(istr %s)", el)
		asInt := fmt.Sprintf("(ite (>= (iint %s) 0) (str.from_int (iint %s)) (str.++ \"-\" (str.from_int (- (iint %s)))))", el, el, el)
		var t string
		switch v {
		case 'x':
			// %x of a byte slice: the hexadecimal form of its text (hex_of / str_of as in the assumed contracts of
			// encoding/hex and of the byte-slice conversions); anything else under %x stays unconstrained
			bytesID := vc.w.so.typeID(types.NewSlice(types.Universe.Lookup("byte").Type()))
			t = other
			if so, ok := vc.ufuncApp("str_of", fmt.Sprintf("(isl %s)", el)); ok {
				if hx, ok := vc.ufuncApp("hex_of", so); ok {
					t = ite(fmt.Sprintf("(= (itag %s) %d)", el, bytesID), hx, other)
				}
			}
		case 's':
			t = ite(fmt.Sprintf("(= (itag %s) %d)", el, strID), asStr, other)
		case 'd':
			t = ite(fmt.Sprintf("(= (itag %s) %d)", el, intID), asInt, other)
		default:
			t = ite(fmt.Sprintf("(= (itag %s) %d)", el, strID), asStr, ite(fmt.Sprintf("(= (itag %s) %d)", el, intID), asInt, other))
		}
		parts = append(parts, t)
	}
	if lits[len(verbs)] != "" {
		parts = append(parts, smtString(lits[len(verbs)]))
	}
	cat := parts[0]
	if len(parts) > 1 {
		cat = "(str.++ " + strings.Join(parts, " ") + ")"
	}
	res := vc.fresh("sprintf", "String")
	vc.assume(reach, imp(fmt.Sprintf("(= (slen %s) %d)", sl, len(verbs)), eq(res, cat)))
	return &sym{t: res, typ: types.Typ[types.String]}
}

// funcSetCall handles a dynamic call inside a function whose contract declares `funcset G = f1, f2, ...`: the
// callee is one of the listed functions (the table G is immutable and initialised with exactly these, checked
// by validateFuncSet), so the call is a nondeterministic choice between their contracts.
func (f *frame) funcSetCall(abs string, args []*sym, st *state, reach string, pos token.Pos, rt types.Type) *sym {
	vc := f.vc
	f.lastFuncSetResult = nil
	c := vc.c
	if c == nil || len(c.FuncSet) == 0 || !strings.HasPrefix(abs, "dyn:") {
		return nil
	}
	var fns []*ssa.Function
	for _, n := range c.FuncSet {
		fn := vc.w.funcs[absName(n, c.Pkg)]
		if fn == nil {
			return nil
		}
		if len(fn.Params) != len(args) {
			return nil
		}
		fns = append(fns, fn)
	}
	pre := st.clone()
	var conds []string
	var sts []*state
	var results [][]*sym
	remaining := "true"
	for i, fn := range fns {
		sel := "true"
		if i < len(fns)-1 {
			sel = vc.fresh("pick_"+fn.Name(), "Bool")
		}
		cond := and(remaining, sel)
		remaining = and(remaining, not(sel))
		br := pre.clone()
		r := f.applyCall(nameOf(fn), fn, args, nil, br, and(reach, cond), pos, rt)
		conds = append(conds, vc.define("fs", "Bool", cond))
		sts = append(sts, br)
		if r != nil && r.tuple != nil {
			results = append(results, r.tuple)
		} else if r != nil {
			results = append(results, []*sym{r})
		} else {
			results = append(results, nil)
		}
	}
	m := vc.mergeStates(conds, sts)
	st.adopt(m)
	// merge results
	n := len(results[0])
	var out []*sym
	for k := 0; k < n; k++ {
		t := results[len(results)-1][k].t
		for i := len(results) - 2; i >= 0; i-- {
			t = ite(conds[i], results[i][k].t, t)
		}
		ty := results[0][k].typ
		out = append(out, &sym{t: vc.define("fsr", vc.w.so.sortOf(ty), t), typ: ty})
	}
	var res *sym
	switch {
	case n == 0:
		res = &sym{typ: rt}
	case n == 1:
		res = out[0]
	default:
		res = &sym{typ: rt, tuple: out}
	}
	f.lastFuncSetResult = res
	return res
}

// validateFuncSet checks the funcset directive against the package initialiser: the global is never written
// outside init, and the function values stored into its backing array are exactly the listed functions.
func (vc *FnVC) validateFuncSet(c *Contract) string {
	pkg := vc.w.spkgs[c.Pkg]
	if pkg == nil {
		return "package not found"
	}
	g, ok := pkg.Members[c.FuncSetGlobal].(*ssa.Global)
	if !ok {
		return "no such global " + c.FuncSetGlobal
	}
	if vc.w.mutGlobal[g] {
		return "global " + c.FuncSetGlobal + " is written outside the package initialiser"
	}
	init := pkg.Func("init")
	if init == nil {
		return "no package initialiser"
	}
	found := map[string]bool{}
	stored := false
	for _, b := range init.Blocks {
		for _, in := range b.Instrs {
			st, ok := in.(*ssa.Store)
			if !ok {
				continue
			}
			if st.Addr == ssa.Value(g) {
				stored = true
				// the stored slice: walk back to its array and collect the function values stored into it
				if sl, ok := st.Val.(*ssa.Slice); ok {
					for _, b2 := range init.Blocks {
						for _, in2 := range b2.Instrs {
							if s2, ok := in2.(*ssa.Store); ok {
								if ia, ok := s2.Addr.(*ssa.IndexAddr); ok && ia.X == sl.X {
									if fn, ok := s2.Val.(*ssa.Function); ok {
										found[relName(nameOf(fn), c.Pkg)] = true
									} else if ct, ok := s2.Val.(*ssa.ChangeType); ok {
										if fn, ok := ct.X.(*ssa.Function); ok {
											found[relName(nameOf(fn), c.Pkg)] = true
										}
									} else {
										found["?"] = true
									}
								}
							}
						}
					}
				}
			}
		}
	}
	if !stored {
		return "the initialiser does not assign " + c.FuncSetGlobal
	}
	want := map[string]bool{}
	for _, n := range c.FuncSet {
		want[n] = true
	}
	for n := range found {
		if !want[n] {
			return "the table holds " + n + ", which the funcset directive does not list"
		}
	}
	for n := range want {
		if !found[n] {
			return "the funcset directive lists " + n + ", which the table does not hold"
		}
	}
	return ""
}

// preserveLocals: after a havoc-everything call, the cells of this function's local variables whose address does
// not escape (ssa.Alloc with Heap == false) and was not handed to the call still hold what they held before.
func (f *frame) preserveLocals(pre, st *state, args []*sym) {
	vc := f.vc
	frames := []*frame{f}
	if p := f.parent(); p != nil && p != f {
		frames = append(frames, p)
	}
	for _, fr := range frames {
		if fr.fn == nil {
			continue
		}
		for _, b := range fr.fn.Blocks {
			for _, in := range b.Instrs {
				a, ok := in.(*ssa.Alloc)
				if !ok || a.Heap {
					continue
				}
				s, ok := fr.vals[a]
				if !ok || s.t == "" {
					continue
				}
				passed := false
				for _, arg := range args {
					if arg.t == s.t || (arg.pl != nil && arg.pl.root == s.t) {
						passed = true
					}
				}
				if passed {
					continue
				}
				for _, k := range fr.staticKeysOfAlloc(a) {
					so := vc.heapSort(k)
					if !strings.HasPrefix(so, "(Array Ref ") {
						continue
					}
					st.h[k] = vc.define("h_"+k, so, fmt.Sprintf("(store %s %s (select %s %s))", vc.hget(st, k), s.t, vc.hget(pre, k), s.t))
				}
			}
		}
	}
}

// havocInterior: a callee that receives the address of a slice/array element or of a cell may write through it;
// the contract speaks about the opaque pointer, so the location itself is havocked (sound over-approximation).
func (f *frame) havocInterior(args []*sym, st *state, reach string) {
	vc := f.vc
	for _, a := range args {
		if a.pl == nil || a.t == "" {
			continue
		}
		switch a.pl.kind {
		case plElem:
			k := vc.elemKey(a.pl.elemT)
			h := vc.hget(st, k)
			inner := "(select " + h + " " + a.pl.base + ")"
			nv := vc.fresh("hv_elem", vc.w.so.sortOf(a.pl.elemT))
			vc.hset(st, k, ite(reach, "(store "+h+" "+a.pl.base+" (store "+inner+" "+a.pl.idx+" "+nv+"))", h))
		}
	}
}

// usesInslice: does the contract of the function being verified mention the builtin inslice, directly or through a
// predicate / spec function?  (The append lemmas carry quantifiers; they are emitted only where they are needed.)
func (vc *FnVC) usesInslice() bool {
	if vc.insliceUse != 0 {
		return vc.insliceUse > 0
	}
	vc.insliceUse = -1
	if vc.c == nil || !vc.w.insliceUsers[vc.pkgPath] {
		return false
	}
	names := []string{"inslice("}
	for changed := true; changed; {
		changed = false
		for n, d := range vc.w.defs {
			key := shortDefName(n) + "("
			has := false
			for _, k := range names {
				if k == key {
					has = true
				}
			}
			if has {
				continue
			}
			for _, k := range names {
				if strings.Contains(d.Src, k) {
					names = append(names, key)
					changed = true
					break
				}
			}
		}
	}
	var text []string
	add := func(cs []*Clause) {
		for _, c := range cs {
			text = append(text, c.Src)
		}
	}
	add(vc.c.Requires)
	add(vc.c.Ensures)
	add(vc.c.Sites)
	for _, cs := range vc.c.LoopInv {
		add(cs)
	}
	for _, cs := range vc.c.LoopStep {
		add(cs)
	}
	all := strings.Join(text, "\n")
	for _, k := range names {
		if strings.Contains(all, k) {
			vc.insliceUse = 1
			return true
		}
	}
	return false
}

func shortDefName(n string) string {
	if i := strings.LastIndex(n, "."); i >= 0 {
		return n[i+1:]
	}
	return n
}

// recordValue evaluates the right-hand side of a `records` clause; nil when it cannot be evaluated in this
// environment (it names locals of the callee and is being applied at a call site).
func (f *frame) recordValue(e *env, r Record) (v *sym) {
	if e.f == f && f.vc.c != nil && f.c != nil && e.pointBlock != nil {
		return e.rvalue(r.E)
	}
	defer func() {
		if x := recover(); x != nil {
			if _, ok := x.(genError); !ok {
				panic(x)
			}
			v = nil
		}
	}()
	return e.rvalue(r.E)
}

// applyCallbackFrame: a callee declared `callsback P` calls the function value passed as P zero or more times.  When
// that value is a closure (or function) of this program with a contract, whatever the closure may modify may be
// modified by this call; nothing more is known afterwards (no postcondition of a single call survives repetition).
// A callback without a contract makes the call modify everything.
func (f *frame) applyCallbackFrame(c *Contract, rel string, args []*sym, pre, st *state, reach string, pos token.Pos) {
	vc := f.vc
	idx := -1
	for i, p := range c.Params {
		if p == c.CallsBack {
			idx = i
		}
	}
	if idx < 0 || idx >= len(args) {
		vc.oblige("bind", "callsback_"+mangle(rel), "true", "false", pos, "callsback "+c.CallsBack+": no such parameter of "+rel, nil).Trivial = false
		return
	}
	cb := args[idx]
	if cb.clos == nil || cb.clos.fn == nil {
		vc.w.note("%s: callback handed to %s is not a known closure (modifies *)", vc.fnName, rel)
		vc.havocAll(st, reach)
		return
	}
	cc := vc.w.contractOf(nameOf(cb.clos.fn))
	if cc == nil {
		vc.w.note("%s: callback %s handed to %s has no contract (modifies *)", vc.fnName, cb.clos.fn.String(), rel)
		vc.havocAll(st, reach)
		return
	}
	var cargs []*sym
	for _, p := range cb.clos.fn.Params {
		cargs = append(cargs, f.freshOf(p.Type(), "cbarg_"+p.Name(), nil, reach))
	}
	havoc := func(s *state) {
		envCb := f.calleeEnv(cc, cb.clos.fn, cargs, cb.clos.bindings, pre, pre)
		f.applyMods(cc.Modifies, envCb, s, reach, rel+"/callback")
		for _, r := range cc.Records {
			if k, so, ok := vc.ghostKey(r.Ghost); ok {
				s.h[k] = vc.fresh("g_"+r.Ghost, so)
			}
		}
	}
	// callback invariants of the caller for this site
	var invs []*Clause
	if f.c != nil && vc.c != nil {
		for _, sc := range vc.c.Sites {
			if sc.Kind == "cbinv" && (sc.Callee == rel) && (sc.Ord < 0 || sc.Ord == f.curOrd) {
				invs = append(invs, sc)
				vc.sitesHit[sc]++
			}
		}
	}
	envAt := func(s *state) *env {
		e := vc.topEnv(f, s)
		e.usePoint()
		for i, a := range args {
			e.vars[fmt.Sprintf("arg%d", i)] = a
		}
		pe := vc.topEnv(f, pre)
		pe.usePoint()
		for i, a := range args {
			pe.vars[fmt.Sprintf("arg%d", i)] = a
		}
		pe.entryEnv = pe
		e.entryEnv = pe
		return e
	}
	name := func(kind string, cl *Clause, i int) (string, string) {
		label := cl.Label
		if label == "" {
			label = fmt.Sprintf("c%d", i)
		}
		return fmt.Sprintf("%s@%s#%d", kind, rel, f.curOrd), label
	}
	if len(invs) > 0 {
		// 1. the invariant holds before the call
		for i, cl := range invs {
			k, l := name("cbinv-entry", cl, i)
			vc.oblige(k, l, reach, envAt(pre).boolExpr(cl.E), pos, cl.Src, cl.Props)
		}
		// 2. one invocation of the callback, from any state satisfying the invariant, re-establishes it
		st1 := pre.clone()
		havoc(st1)
		for _, cl := range invs {
			vc.assume(reach, envAt(st1).boolExpr(cl.E))
		}
		st2 := st1.clone()
		var crt types.Type = cb.clos.fn.Signature.Results()
		if cb.clos.fn.Signature.Results().Len() == 1 {
			crt = cb.clos.fn.Signature.Results().At(0).Type()
		}
		f.applyContract(cc, rel+"/callback", cb.clos.fn, cargs, cb.clos.bindings, st2, reach, pos, crt)
		for i, cl := range invs {
			k, l := name("cbinv-keep", cl, i)
			vc.oblige(k, l, reach, envAt(st2).boolExpr(cl.E), pos, cl.Src, cl.Props)
		}
	}
	// 3. afterwards: whatever the callback may modify has changed, and the invariant holds
	havoc(st)
	for _, cl := range invs {
		vc.assume(reach, envAt(st).boolExpr(cl.E))
	}
}
