package main

import (
	"fmt"
	"go/token"
)

func (w *World) lemmas() []*SpecDef {
	var out []*SpecDef
	for _, n := range w.defOrder {
		if d := w.defs[n]; d.Kind == "lemma" {
			out = append(out, d)
		}
	}
	return out
}

// lemmaVC: a lemma is a closed formula over arbitrary heaps; twostate lemmas relate an old and a new heap.
func (w *World) lemmaVC(d *SpecDef) (vc *FnVC, err error) {
	vc = w.newVC(nil, nil)
	vc.fnName = "lemma." + d.Name
	vc.pkgPath = d.Pkg
	defer func() {
		if r := recover(); r != nil {
			if e, ok := r.(genError); ok {
				err = fmt.Errorf("lemma %s: %s", d.Name, string(e))
				return
			}
			panic(r)
		}
	}()
	f := &frame{vc: vc, names: map[string]*sym{}}
	old := &state{h: map[string]string{}, epoch: 0, havocked: "false"}
	cur := old
	if d.TwoState {
		epochCounter++
		cur = &state{h: map[string]string{}, epoch: epochCounter, havocked: "false"}
	}
	e := &env{f: f, vc: vc, vars: map[string]*sym{}, cur: cur, old: old, pkgPath: d.Pkg}
	for _, b := range d.Params {
		ty, err := w.lookupType(b.Type, d.Pkg)
		if err != nil {
			return nil, err
		}
		s := &sym{t: vc.fresh("l_"+b.Name, w.so.sortOf(ty)), typ: ty}
		vc.wf("true", s.t, ty, cur, 0)
		e.vars[b.Name] = s
	}
	goal := e.boolExpr(d.Body)
	o := vc.oblige("lemma", "", "true", goal, token.NoPos, d.Src, d.Props)
	o.Name = "lemma." + d.Name
	o.Pos = fmt.Sprintf("%s:%d", d.File, d.Line)
	return vc, nil
}
