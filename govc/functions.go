package main

// Renamed functions.  A contract is bound to a function by name.  `govc expect` records, for every function that
// is verified against a repository contract, its receiver and signature, and for every package the names of all
// its functions (contracts/functions.json).  When a contract's function no longer exists, and the package has
// exactly one function that (a) did not exist when the record was written, (b) has no contract, and (c) has the
// recorded receiver type and signature, the contract is bound to that function: it is verified against the
// contract like any other body, its callers see the contract, and its obligations keep their recorded names.
// Trusted contracts are never re-bound this way (their bodies are not checked, so a wrong guess would go unnoticed).

import (
	"encoding/json"
	"go/types"
	"os"
	"path/filepath"
	"sort"
	"strings"

	"golang.org/x/tools/go/ssa"
)

type functionsFile struct {
	Sigs  map[string]string   `json:"signatures"`
	Names map[string][]string `json:"functions"`
	Loops map[string]int      `json:"loops"`
}

// recordedName: current top-level function -> the name its contract knows it by
var recordedName = map[*ssa.Function]string{}

// nameOf is fn.String() with renamed functions (and their closures) under their recorded names.
func nameOf(fn *ssa.Function) string {
	if len(recordedName) == 0 {
		return fn.String()
	}
	if n, ok := recordedName[fn]; ok && fn.Parent() != nil {
		return n // a closure under contract that moved, with the code around it, into another function
	}
	top := fn
	for top.Parent() != nil {
		top = top.Parent()
	}
	if n, ok := recordedName[top]; ok {
		return n + strings.TrimPrefix(fn.String(), top.String())
	}
	return fn.String()
}

func fullQual(p *types.Package) string { return p.Path() }

func sigKey(fn *ssa.Function) string {
	s := ""
	if r := fn.Signature.Recv(); r != nil {
		s = types.TypeString(r.Type(), fullQual) + "|"
	}
	return s + types.TypeString(fn.Signature, fullQual)
}

func (w *World) writeFunctions(verif string) error {
	rec := functionsFile{Sigs: map[string]string{}, Names: map[string][]string{}, Loops: map[string]int{}}
	for n, c := range w.contracts {
		if c.Assumed || c.Trusted {
			continue
		}
		if fn := w.funcOf(n); fn != nil && len(fn.Blocks) > 0 {
			if k := len(loopHeaders(fn)); k > 0 {
				rec.Loops[n] = k
			}
		}
	}
	pkgs := map[string]bool{}
	for n, c := range w.contracts {
		if c.Assumed || c.Trusted {
			continue
		}
		if i := strings.LastIndex(n, "@"); i >= 0 {
			n = n[:i]
		}
		fn := w.funcs[n]
		if fn == nil || fn.Pkg == nil {
			continue
		}
		rec.Sigs[n] = sigKey(fn)
		if fn.Parent() != nil {
			continue
		}
		pkgs[fn.Pkg.Pkg.Path()] = true
	}
	for n, fn := range w.funcs {
		if fn.Parent() == nil && fn.Pkg != nil && pkgs[fn.Pkg.Pkg.Path()] && fn.Synthetic == "" {
			p := fn.Pkg.Pkg.Path()
			rec.Names[p] = append(rec.Names[p], n)
		}
	}
	for _, v := range rec.Names {
		sort.Strings(v)
	}
	b, _ := json.MarshalIndent(rec, "", " ")
	return os.WriteFile(filepath.Join(verif, "contracts", "functions.json"), append(b, '\n'), 0o644)
}

// recoverRenamedFunctions binds contracts whose function has disappeared to the one new function of the package
// with the recorded receiver and signature.
func (w *World) recoverRenamedFunctions(verif string) {
	b, err := os.ReadFile(filepath.Join(verif, "contracts", "functions.json"))
	if err != nil {
		return
	}
	var rec functionsFile
	if json.Unmarshal(b, &rec) != nil {
		return
	}
	w.recLoops = rec.Loops
	var keys []string
	for n, c := range w.contracts {
		if c.Assumed || c.Trusted || strings.Contains(n, "$") || strings.Contains(n, "@") {
			continue
		}
		if w.funcOf(n) == nil && rec.Sigs[n] != "" {
			keys = append(keys, n)
		}
	}
	sort.Strings(keys)
	taken := map[*ssa.Function]bool{}
	for _, n := range keys {
		c := w.contracts[n]
		known := map[string]bool{}
		for _, k := range rec.Names[c.Pkg] {
			known[k] = true
		}
		var cands []*ssa.Function
		for m, fn := range w.funcs {
			if fn.Parent() != nil || fn.Pkg == nil || fn.Pkg.Pkg.Path() != c.Pkg || fn.Synthetic != "" || len(fn.Blocks) == 0 {
				continue
			}
			if known[m] || w.contracts[m] != nil || taken[fn] || sigKey(fn) != rec.Sigs[n] {
				continue
			}
			cands = append(cands, fn)
		}
		if len(cands) != 1 {
			continue
		}
		fn := cands[0]
		taken[fn] = true
		recordedName[fn] = n
		w.renamedFuncs = append(w.renamedFuncs, relName(n, c.Pkg)+" -> "+relName(fn.String(), c.Pkg))
	}
	// closures under contract whose enclosing function no longer holds them: the one closure of the package with
	// the recorded signature that has no contract and sits in a function that is new
	var ckeys []string
	for n, c := range w.contracts {
		if c.Assumed || c.Trusted || !strings.Contains(n, "$") || strings.Contains(n, "@") {
			continue
		}
		if w.funcOf(n) == nil && rec.Sigs[n] != "" {
			ckeys = append(ckeys, n)
		}
	}
	sort.Strings(ckeys)
	for _, n := range ckeys {
		c := w.contracts[n]
		known := map[string]bool{}
		for _, k := range rec.Names[c.Pkg] {
			known[k] = true
		}
		var cands []*ssa.Function
		for _, fn := range w.allFuncs {
			if fn.Parent() == nil || fn.Pkg == nil || fn.Pkg.Pkg.Path() != c.Pkg || len(fn.Blocks) == 0 || taken[fn] {
				continue
			}
			top := fn
			for top.Parent() != nil {
				top = top.Parent()
			}
			if known[top.String()] || w.contracts[nameOf(fn)] != nil || sigKey(fn) != rec.Sigs[n] {
				continue
			}
			cands = append(cands, fn)
		}
		if len(cands) != 1 {
			continue
		}
		taken[cands[0]] = true
		recordedName[cands[0]] = n
		w.renamedFuncs = append(w.renamedFuncs, relName(n, c.Pkg)+" -> "+relName(cands[0].String(), c.Pkg))
	}
	if len(recordedName) == 0 {
		return
	}
	// the function index speaks the recorded names (closures included)
	for _, fn := range w.allFuncs {
		if n := nameOf(fn); n != fn.String() {
			w.funcs[n] = fn
		}
	}
}
