package main

// Discharging obligations with the installed SMT solvers.

import (
	"bytes"
	"context"
	"crypto/sha256"
	"fmt"
	"os"
	"os/exec"
	"path/filepath"
	"regexp"
	"strings"
	"sync"
	"sync/atomic"
	"time"
)

type solverSpec struct {
	name string
	bin  string
	args func(timeoutS int, seed int) []string
}

var solvers = []solverSpec{
	{"z3-5.1.0", "z3-new", func(t, seed int) []string {
		return []string{fmt.Sprintf("-T:%d", t), fmt.Sprintf("smt.random_seed=%d", seed), fmt.Sprintf("sat.random_seed=%d", seed), "-smt2"}
	}},
	{"cvc5-1.0.3", "cvc5", func(t, seed int) []string {
		return []string{fmt.Sprintf("--tlimit=%d", t*1000), fmt.Sprintf("--seed=%d", seed), "--lang=smt2", "--strings-exp", "--full-saturate-quant"}
	}},
	{"z3-4.8.12", "z3", func(t, seed int) []string {
		return []string{fmt.Sprintf("-T:%d", t), fmt.Sprintf("smt.random_seed=%d", seed), "-smt2"}
	}},
}

// coverSolver: z3 5.1 with trigger-based instantiation only.  A cover asks whether the assumptions at a point are
// contradictory; with model-based instantiation on, z3 keeps looking for a model of the quantified heap axioms and
// times out without an answer.  Without it the query ends as soon as the triggers are saturated: `unsat` (the point is
// unreachable or the assumptions contradictory), `sat`, or `unknown (incomplete quantifiers)` — no contradiction
// derivable by the instantiations the proofs themselves rest on, reported as "consistent".
var coverSolver = solverSpec{"z3-5.1.0 (e-matching)", "z3-new", func(t, seed int) []string {
	return []string{fmt.Sprintf("-T:%d", t), "smt.mbqi=false", "smt.auto_config=false", fmt.Sprintf("smt.random_seed=%d", seed), "-smt2"}
}}

func expandConstArr(c string, cvc5 bool) string {
	f := strings.Split(strings.TrimPrefix(c, ";;CONSTARR "), "\t")
	if len(f) != 4 {
		return c
	}
	name, idx, elem, term := f[0], f[1], f[2], f[3]
	if cvc5 {
		return fmt.Sprintf("(declare-const %s (Array %s %s))\n(assert (forall ((ci %s)) (! (= (select %s ci) %s) :pattern ((select %s ci)))))", name, idx, elem, idx, name, term, name)
	}
	return fmt.Sprintf("(define-fun %s () (Array %s %s) ((as const (Array %s %s)) %s))", name, idx, elem, idx, elem, term)
}

func (o *Obligation) script(w *World, cover bool, withModel bool) string {
	return o.scriptFor(w, cover, withModel, false)
}

func (o *Obligation) scriptFor(w *World, cover bool, withModel bool, cvc5 bool) string {
	var b strings.Builder
	if withModel {
		b.WriteString("(set-option :produce-models true)\n")
	}
	b.WriteString("(set-logic ALL)\n")
	var body strings.Builder
	for _, c := range o.vc.cmds[:o.Prefix] {
		if strings.HasPrefix(c, ";;CONSTARR ") {
			c = expandConstArr(c, cvc5)
		}
		body.WriteString(c)
		body.WriteByte('\n')
	}
	if cover {
		body.WriteString("(assert " + o.Goal + ")\n")
	} else {
		body.WriteString("(assert (not " + o.Goal + "))\n")
	}
	b.WriteString(w.so.prelude(body.String()))
	b.WriteString(body.String())
	b.WriteString("(check-sat)\n")
	if cover {
		b.WriteString("(get-info :reason-unknown)\n")
	}
	if withModel {
		b.WriteString("(get-model)\n")
	}
	return b.String()
}

func runSolver(s solverSpec, file string, timeoutS, seed int) (status, out string, secs float64) {
	return runSolverCtx(context.Background(), s, file, timeoutS, seed)
}

func runSolverCtx(parent context.Context, s solverSpec, file string, timeoutS, seed int) (status, out string, secs float64) {
	ctx, cancel := context.WithTimeout(parent, time.Duration(timeoutS+5)*time.Second)
	defer cancel()
	args := append(s.args(timeoutS, seed), file)
	cmd := exec.CommandContext(ctx, s.bin, args...)
	var buf bytes.Buffer
	cmd.Stdout = &buf
	cmd.Stderr = &buf
	t0 := time.Now()
	_ = cmd.Run()
	secs = time.Since(t0).Seconds()
	out = buf.String()
	first := strings.TrimSpace(strings.SplitN(out, "\n", 2)[0])
	switch {
	case first == "unsat":
		return "unsat", out, secs
	case first == "sat":
		return "sat", out, secs
	case first == "unknown":
		return "unknown", out, secs
	case parent.Err() != nil:
		return "cancelled", out, secs
	case first == "timeout" || ctx.Err() != nil || strings.Contains(out, "interrupted by timeout"):
		return "timeout", out, secs
	}
	return "error", out, secs
}

type dischargeOpts struct {
	workDir  string
	timeoutS int
	seed     int
	cross    bool // thorough: require agreement of two solvers when both answer
	jobs     int
}

var reModelLine = regexp.MustCompile(`\(define-fun ([A-Za-z0-9_.$]+) \(\) ([A-Za-z0-9_]+)\s+(.*)\)\s*$`)

// discharge decides every obligation; covers are expected sat.
func discharge(w *World, obls []*Obligation, opt dischargeOpts) {
	os.MkdirAll(opt.workDir, 0o755)
	var wg sync.WaitGroup
	sem := make(chan struct{}, opt.jobs)
	for i, o := range obls {
		if o.Trivial {
			o.Status, o.Solver = "unsat", "syntactic"
			continue
		}
		if o.vc == nil {
			continue // binding failures carry their verdict already
		}
		wg.Add(1)
		sem <- struct{}{}
		go func(i int, o *Obligation) {
			defer wg.Done()
			defer func() { <-sem }()
			dischargeOne(w, i, o, opt)
		}(i, o)
	}
	wg.Wait()
	// A time-out is no verdict.  Under load (other checks running beside this one) a goal that normally takes a
	// second or two can run out of time; the few goals that timed out are tried once more, fewer at a time and with
	// three times the limit, before they are reported as undischarged.
	var late []int
	for i, o := range obls {
		if o.vc != nil && !o.Trivial && o.Status == "timeout" && o.Kind != "cover" {
			late = append(late, i)
		}
	}
	if len(late) == 0 || len(late) > 48 || opt.timeoutS > 10 {
		return
	}
	opt2 := opt
	opt2.timeoutS = opt.timeoutS * 3
	sem2 := make(chan struct{}, 6)
	for _, i := range late {
		wg.Add(1)
		sem2 <- struct{}{}
		go func(i int, o *Obligation) {
			defer wg.Done()
			defer func() { <-sem2 }()
			first := o.Output
			secs := o.Seconds
			o.Status = ""
			dischargeOne(w, i, o, opt2)
			o.Seconds += secs
			o.Output = first + "\n-- timed out; second attempt with " + fmt.Sprint(opt2.timeoutS) + " s:\n" + o.Output
		}(i, obls[i])
	}
	wg.Wait()
}

// memo: answers for byte-identical goals, shared between the properties of one `check all` run (never across runs)
var memoOn bool
var solveMemo sync.Map
var memoHits int64

type memoEntry struct {
	status, solver, output, model string
	modelVal                      map[string]string
}

func dischargeOne(w *World, i int, o *Obligation, opt dischargeOpts) {
	isCover := o.Kind == "cover"
	file := filepath.Join(opt.workDir, fmt.Sprintf("o%04d_%s.smt2", i, trunc(mangle(o.Name), 80)))
	text := o.script(w, isCover, false)
	if memoOn {
		key := fmt.Sprintf("%x|%v|%d", sha256.Sum256([]byte(text)), isCover, opt.timeoutS)
		if m, ok := solveMemo.Load(key); ok {
			e := m.(memoEntry)
			atomic.AddInt64(&memoHits, 1)
			o.Status, o.Solver, o.Output, o.Model, o.ModelVal = e.status, e.solver, e.output+"\n(answer shared with an identical goal of this run)", e.model, e.modelVal
			return
		}
		defer func() {
			if o.Status == "unsat" || o.Status == "sat" {
				solveMemo.Store(key, memoEntry{o.Status, o.Solver, o.Output, o.Model, o.ModelVal})
			}
		}()
	}
	if err := os.WriteFile(file, []byte(text), 0o644); err != nil {
		o.Status, o.Output = "error", err.Error()
		return
	}
	var outputs []string
	total := 0.0
	answered := 0
	cvcFile := strings.TrimSuffix(file, ".smt2") + ".cvc5.smt2"
	raced := false
	if isCover {
		st, out, secs := runSolver(coverSolver, file, 3, opt.seed)
		total += secs
		if st == "unknown" && strings.Contains(out, "incomplete") {
			st = "consistent"
		}
		outputs = append(outputs, fmt.Sprintf("[%s] %s (%.2fs)", coverSolver.name, st, secs))
		// anything else (a matching loop that does not saturate in time) stays undecided: the model-building
		// configuration does not answer these either
		o.Status, o.Solver, o.Seconds, o.Output = st, coverSolver.name, total, strings.Join(outputs, "\n")
		return
	}
	if !opt.cross && !isCover {
		// quick tier: z3 5.1 first on its own for a moment (most goals take milliseconds), then race it against cvc5
		st, out, secs := runSolver(solvers[0], file, 1, opt.seed)
		total += secs
		if st == "unsat" || st == "sat" {
			o.Status, o.Solver = st, solvers[0].name
			outputs = append(outputs, fmt.Sprintf("[%s] %s (%.2fs)", solvers[0].name, st, secs))
			raced = true
		} else if st == "error" {
			outputs = append(outputs, fmt.Sprintf("[%s] error", solvers[0].name), trunc(out, 600))
		} else if err := os.WriteFile(cvcFile, []byte(o.scriptFor(w, isCover, false, true)), 0o644); err == nil {
			type res struct {
				idx     int
				st, out string
				secs    float64
			}
			ctx, cancel := context.WithCancel(context.Background())
			// contestants: both z3 versions, cvc5, and z3 5.1 under two more seeds — a goal that one run of one solver
			// happens to time out on (quantifier instantiation order depends on the seed) must not decide a check
			type contestant struct {
				idx  int
				file string
				seed int
			}
			cs := []contestant{{0, file, opt.seed}, {1, cvcFile, opt.seed}, {0, file, opt.seed + 7}, {0, file, opt.seed + 13}, {2, file, opt.seed}}
			ch := make(chan res, len(cs))
			for _, c := range cs {
				c := c
				go func() {
					st, out, secs := runSolverCtx(ctx, solvers[c.idx], c.file, opt.timeoutS, c.seed)
					ch <- res{c.idx, st, out, secs}
				}()
			}
			for k := 0; k < len(cs); k++ {
				r := <-ch
				if r.st == "cancelled" {
					continue
				}
				outputs = append(outputs, fmt.Sprintf("[%s] %s (%.2fs)", solvers[r.idx].name, r.st, r.secs))
				if r.st == "error" {
					outputs = append(outputs, trunc(r.out, 600))
				}
				if total < r.secs {
					total = r.secs
				}
				if (r.st == "unsat" || r.st == "sat") && o.Status != "unsat" && o.Status != "sat" {
					o.Status, o.Solver = r.st, solvers[r.idx].name
					cancel()
				} else if o.Status == "" && (r.st == "unknown" || r.st == "timeout") {
					o.Status = r.st
				}
			}
			cancel()
			raced = true
		}
	}
	for si, s := range solvers {
		if raced && (si < 3 || o.Status == "unsat" || o.Status == "sat") {
			continue
		}
		t := opt.timeoutS
		if isCover {
			// a cover only has to fail to be refuted; one solver and a short budget are enough
			if si > 0 {
				break
			}
			if t > 3 {
				t = 3
			}
		}
		if si > 0 && !opt.cross {
			// later solvers only get a chance when the first could not decide
			t = opt.timeoutS
		}
		useFile := file
		if s.bin == "cvc5" {
			if err := os.WriteFile(cvcFile, []byte(o.scriptFor(w, isCover, false, true)), 0o644); err == nil {
				useFile = cvcFile
			}
		}
		st, out, secs := runSolver(s, useFile, t, opt.seed)
		total += secs
		outputs = append(outputs, fmt.Sprintf("[%s] %s (%.2fs)", s.name, st, secs))
		if st == "error" {
			outputs = append(outputs, trunc(out, 600))
			continue
		}
		if st == "unsat" || st == "sat" {
			answered++
			if o.Status == "" || o.Status == "unknown" || o.Status == "timeout" {
				o.Status, o.Solver = st, s.name
			} else if o.Status != st {
				o.Status = "error"
				outputs = append(outputs, "SOLVER DISAGREEMENT")
				break
			}
			if !opt.cross || answered >= 2 {
				break
			}
			continue
		}
		if o.Status == "" {
			o.Status = st
		}
	}
	o.Seconds = total
	o.Output = strings.Join(outputs, "\n")
	if isCover {
		return
	}
	if o.Status == "sat" {
		// obtain a model
		mfile := strings.TrimSuffix(file, ".smt2") + ".model.smt2"
		os.WriteFile(mfile, []byte(o.script(w, false, true)), 0o644)
		for _, s := range solvers {
			if s.name != o.Solver {
				continue
			}
			st, out, _ := runSolver(s, mfile, opt.timeoutS, opt.seed)
			if st == "sat" {
				o.Model = out
				o.ModelVal = parseModel(out)
			}
		}
	}
}

func trunc(s string, n int) string {
	if len(s) > n {
		return s[:n]
	}
	return s
}

// parseModel extracts the scalar constants of a z3/cvc5 model.
func parseModel(out string) map[string]string {
	m := map[string]string{}
	lines := strings.Split(out, "\n")
	for i := 0; i < len(lines); i++ {
		l := strings.TrimSpace(lines[i])
		if strings.HasPrefix(l, "(define-fun ") && strings.Contains(l, " () ") {
			full := l
			// z3 prints the value on the next line
			if !strings.HasSuffix(l, ")") || strings.Count(l, "(") > strings.Count(l, ")") {
				for i+1 < len(lines) && strings.Count(full, "(") > strings.Count(full, ")") {
					i++
					full += " " + strings.TrimSpace(lines[i])
				}
			}
			if mm := reModelLine.FindStringSubmatch(full); mm != nil {
				m[mm[1]] = strings.TrimSpace(mm[3])
			}
		}
	}
	return m
}
