package main

// Translation of contract expressions to SMT terms in a program state.

import (
	"fmt"
	"go/constant"
	"go/types"
	"os"
	"strings"

	"golang.org/x/tools/go/ssa"
)

type sval = sym

type env struct {
	f          *frame
	vc         *FnVC
	vars       map[string]*sym
	cur, old   *state
	pkgPath    string
	typesOnly  bool
	noAlias    bool // set while a renamed local is looked up under its current name
	depth      int
	iterEnv    *env
	entryEnv   *env            // the state and loop-carried values on entry to the loop whose clause is being translated
	pointBlock *ssa.BasicBlock // program point for resolving local variable names (nil: no locals)
	pointIdx   int
	sub        *frame          // the helper executed in place inside which the clause is read (nil: none)
	subBlock   *ssa.BasicBlock // ... and the point in it at which its own locals resolve
	subIdx     int
}

// usePoint makes local variable names resolve at the current program point of the top frame.
func (e *env) usePoint() {
	top := e.f
	if p := e.f.parent(); p != nil {
		top = p
	}
	e.pointBlock, e.pointIdx = top.curBlock, top.curIdx
	// inside a loop body the header's loop-carried variables are visible under their source names;
	// idx is the index of the last completed iteration (the element being processed is idx+1)
	var inner *loopInfo
	for _, li := range top.loops {
		if li.blocks[top.curBlock] && (inner == nil || inner.blocks[li.header]) && li.phiSyms != nil {
			inner = li
		}
	}
	if inner != nil {
		for phi, s := range inner.phiSyms {
			if phi.Comment == "rangeindex" {
				e.vars["idx"] = s
			} else if phi.Comment != "" {
				if _, exists := e.vars[phi.Comment]; !exists {
					e.vars[phi.Comment] = s
				}
			}
		}
	}
}

// localByName resolves a source-level local through the DebugRef instructions that dominate the point.
func (e *env) localByName(name string) *sym {
	if e.pointBlock == nil || e.f == nil {
		return nil
	}
	top := e.f
	if p := e.f.parent(); p != nil {
		top = p
	}
	if top.fn != nil && e.pointBlock.Parent() == top.fn {
		if s := e.localIn(top, e.pointBlock, e.pointIdx, name); s != nil {
			return s
		}
	}
	// a clause read inside a helper executed in place: the helper's own locals, at its current point
	if e.sub != nil && e.sub.fn != nil && e.subBlock != nil && e.subBlock.Parent() == e.sub.fn {
		return e.localIn(e.sub, e.subBlock, e.subIdx, name)
	}
	return nil
}

// localIn resolves name among the locals of frame top at the point (pb, pi) of its function.
func (e *env) localIn(top *frame, pb *ssa.BasicBlock, pi int, name string) *sym {
	var best *ssa.DebugRef
	var bestPhi *ssa.Phi
	var bestBlock *ssa.BasicBlock
	bestIdx := -1
	for _, b := range top.fn.Blocks {
		for i, in := range b.Instrs {
			if phi, isPhi := in.(*ssa.Phi); isPhi && phi.Comment == name {
				dom := (b == pb && i < pi) || (b != pb && b.Dominates(pb))
				if _, have := top.vals[phi]; dom && have {
					later := bestBlock == nil || (bestBlock == b && i > bestIdx) || (bestBlock != b && bestBlock.Dominates(b))
					if later {
						best, bestPhi, bestBlock, bestIdx = nil, phi, b, i
					}
				}
				continue
			}
			d, ok := in.(*ssa.DebugRef)
			if !ok || d.Object() == nil || d.Object().Name() != name {
				continue
			}
			if v, isVar := d.Object().(*types.Var); !isVar || v.IsField() {
				continue
			}
			dom := (b == pb && i < pi) || (b != pb && b.Dominates(pb))
			if !dom {
				continue
			}
			if _, have := top.vals[d.X]; !have {
				switch d.X.(type) {
				case *ssa.Const, *ssa.Global, *ssa.Function:
				default:
					continue
				}
			}
			later := bestBlock == nil || (bestBlock == b && i > bestIdx) || (bestBlock != b && bestBlock.Dominates(b))
			if later {
				best, bestPhi, bestBlock, bestIdx = d, nil, b, i
			}
		}
	}
	if bestPhi != nil {
		return top.vals[bestPhi]
	}
	if best == nil {
		return nil
	}
	if _, isConst := best.X.(*ssa.Const); isConst && !best.IsAddr {
		// go/ssa reports the zero value at the declaration of `x := <expr>` when the variable is lifted; if every
		// other mention of the same variable denotes one single SSA value whose definition dominates the point,
		// the variable was never reassigned and that value is what the name means here
		var only ssa.Value
		multi := false
		for _, b := range top.fn.Blocks {
			for _, in := range b.Instrs {
				d, ok := in.(*ssa.DebugRef)
				if !ok || d.Object() != best.Object() || d.IsAddr {
					continue
				}
				if _, c := d.X.(*ssa.Const); c {
					continue
				}
				if only != nil && only != d.X {
					multi = true
				}
				only = d.X
			}
		}
		if only != nil && !multi {
			if in, isInstr := only.(ssa.Instruction); isInstr {
				db := in.Block()
				if _, have := top.vals[only]; have && (db == pb || db.Dominates(pb)) {
					return top.vals[only]
				}
			}
		}
	}
	v := top.val(best.X)
	if best.IsAddr {
		return &sym{typ: derefType(best.X.Type()), pl: e.vc.placeOfPointer(v)}
	}
	return v
}

func (f *frame) env(cur, old *state) *env {
	e := &env{f: f, vc: f.vc, vars: map[string]*sym{}, cur: cur, old: old, pkgPath: f.vc.pkgPath}
	for k, v := range f.names {
		e.vars[k] = v
	}
	if !f.inlined && topFrames[f.vc] == nil {
		// the frame of the function under verification registers itself when it is created (verifyFunction); scratch
		// frames made for reading a clause must not take its place
		topFrames[f.vc] = f
	}
	return e
}

func (e *env) clone() *env {
	n := *e
	n.vars = map[string]*sym{}
	for k, v := range e.vars {
		n.vars[k] = v
	}
	return &n
}

func (e *env) errf(format string, a ...any) {
	fail("spec: "+format, a...)
}

// rvalue: term of the value of x (places are read in the current state).
func (e *env) rvalue(x Expr) *sym {
	s := e.value(x)
	return e.read(s)
}

func (e *env) read(s *sym) *sym {
	if s.pl != nil && s.t == "" {
		if e.typesOnly {
			return &sym{t: "nil", typ: s.pl.typ}
		}
		return &sym{t: e.vc.readPlace(e.cur, s.pl), typ: s.pl.typ}
	}
	return s
}

func (e *env) boolExpr(x Expr) string {
	s := e.rvalue(x)
	if e.vc.w.so.sortOf(s.typ) != "Bool" {
		e.errf("expression %s is not boolean (type %s)", x, s.typ)
	}
	return s.t
}

var tBool = types.Typ[types.Bool]
var tInt = types.Typ[types.Int]
var tString = types.Typ[types.String]

func (e *env) findPkg(name string) *types.Package {
	w := e.vc.w
	if path, ok := w.aliases[e.pkgPath][name]; ok {
		if p := w.tpkgs[path]; p != nil {
			return p
		}
	}
	// prefer packages imported by the contract's package
	if tp := w.tpkgs[e.pkgPath]; tp != nil {
		for _, ip := range tp.Imports() {
			if ip.Name() == name {
				return ip
			}
		}
	}
	var cand *types.Package
	for path, p := range w.tpkgs {
		if p.Name() == name {
			if strings.HasPrefix(path, repoMod) {
				return p
			}
			cand = p
		}
	}
	return cand
}

func (e *env) objValue(o types.Object) *sym {
	switch ob := o.(type) {
	case *types.Const:
		t := ob.Type()
		switch e.vc.w.so.sortOf(t) {
		case "Int":
			if v, ok := constant.Int64Val(constant.ToInt(ob.Val())); ok {
				return &sym{t: smtInt(v), typ: t}
			}
		case "String":
			return &sym{t: smtString(constant.StringVal(ob.Val())), typ: t}
		case "Bool":
			return &sym{t: fmt.Sprint(constant.BoolVal(ob.Val())), typ: t}
		}
	case *types.Var:
		if ob.Pkg() != nil {
			if sp := e.vc.w.prog.Package(ob.Pkg()); sp != nil {
				if g, ok := sp.Members[ob.Name()].(*ssa.Global); ok {
					return &sym{typ: g.Type(), pl: &place{kind: plGlobal, glob: g, elemT: derefType(g.Type()), typ: derefType(g.Type())}}
				}
			}
		}
	}
	return nil
}

func (e *env) ident(name string) *sym {
	if s, ok := e.vars[name]; ok {
		return s
	}
	if s, ok := e.vars["&"+name]; ok { // captured variable: s is the pointer to its cell
		return &sym{typ: derefType(s.typ), pl: e.vc.placeOfPointer(s)}
	}
	// local variable that lives in an Alloc cell
	if e.f != nil {
		top := e.f
		if p := e.f.parent(); p != nil {
			top = p
		}
		for _, fr := range []*frame{e.f, top} {
			if fr.fn == nil {
				continue // a lemma has no function
			}
			for _, b := range fr.fn.Blocks {
				for _, in := range b.Instrs {
					if a, ok := in.(*ssa.Alloc); ok && a.Comment == name {
						if s, ok := fr.vals[a]; ok {
							return &sym{typ: derefType(a.Type()), pl: e.vc.placeOfPointer(s)}
						}
					}
				}
			}
		}
	}
	if s := e.localByName(name); s != nil {
		return s
	}
	if k, so, ok := e.vc.ghostKey(name); ok {
		return e.ghostRead(name, k, so)
	}
	if tp := e.vc.w.tpkgs[e.pkgPath]; tp != nil {
		if o := tp.Scope().Lookup(name); o != nil {
			if s := e.objValue(o); s != nil {
				return s
			}
		}
	}
	// a local that was renamed since the contract was written: resolved by its recorded position (locals.go)
	if e.f != nil && !e.noAlias {
		for fr := e.f; fr != nil; fr = fr.parent() {
			if fr.fn == nil {
				continue
			}
			if alt := e.vc.w.aliasOf(fr.fn, name); alt != "" && alt != name {
				e.noAlias = true
				s := e.ident(alt)
				e.noAlias = false
				return s
			}
		}
	}
	if s := e.movedLoopVar(name); s != nil {
		return s
	}
	if os.Getenv("VERIF_DEBUG") != "" {
		var ks []string
		for k := range e.vars {
			ks = append(ks, k)
		}
		fn := "?"
		if e.f != nil && e.f.fn != nil {
			fn = e.f.fn.Name()
		}
		fmt.Fprintf(os.Stderr, "DEBUG unknown %q in frame %s; vars=%v\n", name, fn, ks)
	}
	e.errf("unknown identifier %q (package %s)", name, e.pkgPath)
	return nil
}

func (e *env) ghostRead(name, key, so string) *sym {
	d := e.vc.w.defs[name]
	var ty types.Type
	if strings.HasPrefix(d.Result, "map[") {
		j := strings.Index(d.Result, "]")
		k, _ := e.vc.w.lookupType(d.Result[4:j], d.Pkg)
		v, _ := e.vc.w.lookupType(d.Result[j+1:], d.Pkg)
		ty = types.NewMap(k, v)
		t := "nil"
		if !e.typesOnly {
			t = e.vc.hget(e.cur, key)
		}
		return &sym{t: t, typ: ty, bound: &boundInfo{}} // bound!=nil marks a ghost map (SMT array)
	}
	ty, _ = e.vc.w.lookupType(d.Result, d.Pkg)
	t := "nil"
	if !e.typesOnly {
		t = e.vc.hget(e.cur, key)
	}
	return &sym{t: t, typ: ty}
}

func fieldIndex(t types.Type, name string) (int, bool) {
	st, ok := t.Underlying().(*types.Struct)
	if !ok {
		return 0, false
	}
	for i := 0; i < st.NumFields(); i++ {
		if st.Field(i).Name() == name {
			return i, true
		}
	}
	return 0, false
}

func (e *env) value(x Expr) *sym {
	vc := e.vc
	so := vc.w.so
	switch x := x.(type) {
	case *EIdent:
		return e.ident(x.Name)
	case *EInt:
		return &sym{t: x.V, typ: tInt}
	case *EStr:
		return &sym{t: smtString(x.V), typ: tString}
	case *EBool:
		return &sym{t: fmt.Sprint(x.V), typ: tBool}
	case *ENil:
		return &sym{t: "nil", typ: types.Typ[types.UntypedNil]}
	case *EOld:
		if e.old == nil {
			e.errf("old() used where no old state exists: %s", x)
		}
		n := e.clone()
		n.cur = e.old
		s := n.rvalue(x.X)
		return s
	case *EEntry:
		if e.entryEnv == nil {
			e.errf("entry() is only available in loop invariants and step clauses: %s", x)
		}
		return e.entryEnv.rvalue(x.X)
	case *EIter:
		if e.iterEnv == nil {
			e.errf("iter() is only available in loop step clauses: %s", x)
		}
		return e.iterEnv.rvalue(x.X)
	case *EIte:
		c := e.boolExpr(x.C)
		a, b := e.rvalue(x.A), e.rvalue(x.B)
		return &sym{t: ite(c, a.t, b.t), typ: a.typ}
	case *EUn:
		a := e.rvalue(x.X)
		if x.Op == "!" {
			return &sym{t: not(a.t), typ: tBool}
		}
		return &sym{t: "(- " + a.t + ")", typ: a.typ}
	case *EBin:
		return e.binary(x)
	case *ESel:
		// qualified identifier or dotted ghost
		if id, ok := x.X.(*EIdent); ok {
			if _, bound := e.vars[id.Name]; !bound {
				if _, bound2 := e.vars["&"+id.Name]; !bound2 {
					if k, s, ok := vc.ghostKey(id.Name + "." + x.F); ok {
						return e.ghostRead(id.Name+"."+x.F, k, s)
					}
					if p := e.findPkg(id.Name); p != nil && !e.isLocalName(id.Name) {
						if o := p.Scope().Lookup(x.F); o != nil {
							if s := e.objValue(o); s != nil {
								return s
							}
						}
					}
				}
			}
		}
		base := e.value(x.X)
		return e.selectField(base, x.F, x)
	case *EIdx:
		base := e.rvalue(x.X)
		i := e.rvalue(x.I)
		switch u := base.typ.Underlying().(type) {
		case *types.Slice:
			return &sym{typ: u.Elem(), pl: &place{kind: plElem, base: "(sbase " + base.t + ")", idx: "(sidx " + base.t + " " + i.t + ")", elemT: u.Elem(), typ: u.Elem()}}
		case *types.Map:
			if base.bound != nil { // ghost map
				return &sym{t: "(select " + base.t + " " + i.t + ")", typ: u.Elem()}
			}
			if e.typesOnly {
				return &sym{t: "nil", typ: u.Elem()}
			}
			v, _ := e.f.mapLookup(e.cur, u, base.t, i.t)
			return &sym{t: v, typ: u.Elem()}
		case *types.Basic:
			return &sym{t: "(str.to_code (str.at " + base.t + " " + i.t + "))", typ: tInt}
		case *types.Array:
			return &sym{t: "(select " + base.t + " " + i.t + ")", typ: u.Elem()}
		}
		e.errf("cannot index %s (type %s)", x.X, base.typ)
	case *ESlice:
		base := e.rvalue(x.X)
		lo := "0"
		if x.Lo != nil {
			lo = e.rvalue(x.Lo).t
		}
		switch base.typ.Underlying().(type) {
		case *types.Basic:
			hi := "(str.len " + base.t + ")"
			if x.Hi != nil {
				hi = e.rvalue(x.Hi).t
			}
			return &sym{t: fmt.Sprintf("(str.substr %s %s (- %s %s))", base.t, lo, hi, lo), typ: base.typ}
		case *types.Slice:
			hi := "(slen " + base.t + ")"
			if x.Hi != nil {
				hi = e.rvalue(x.Hi).t
			}
			return &sym{t: fmt.Sprintf("(mk_slice (sbase %s) (+ (soff %s) %s) (- %s %s) (- (scap %s) %s))", base.t, base.t, lo, hi, lo, base.t, lo), typ: base.typ}
		}
		e.errf("cannot slice %s", x.X)
	case *ECall:
		return e.call(x)
	case *EQuant:
		n := e.clone()
		var binders []string
		for _, b := range x.Vars {
			ty, err := vc.w.lookupType(b.Type, e.pkgPath)
			if err != nil {
				e.errf("%v", err)
			}
			vc.n++
			name := fmt.Sprintf("q_%s_%d", mangle(b.Name), vc.n)
			n.vars[b.Name] = &sym{t: name, typ: ty}
			delete(n.vars, "&"+b.Name)
			if n.iterEnv != nil {
				if n.iterEnv == e.iterEnv {
					n.iterEnv = e.iterEnv.clone()
				}
				n.iterEnv.vars[b.Name] = n.vars[b.Name]
			}
			if e.entryEnv == e {
				n.entryEnv = n
			} else if n.entryEnv != nil {
				if n.entryEnv == e.entryEnv {
					n.entryEnv = e.entryEnv.clone()
				}
				n.entryEnv.vars[b.Name] = n.vars[b.Name]
			}
			binders = append(binders, "("+name+" "+so.sortOf(ty)+")")
		}
		body := n.boolExpr(x.Body)
		q := "exists"
		if x.Forall {
			q = "forall"
		}
		return &sym{t: "(" + q + " (" + strings.Join(binders, " ") + ") " + body + ")", typ: tBool}
	}
	e.errf("cannot translate %T %s", x, x)
	return nil
}

func (e *env) isLocalName(n string) bool {
	_, a := e.vars[n]
	_, b := e.vars["&"+n]
	return a || b
}

func (e *env) selectField(base *sym, name string, x Expr) *sym {
	vc := e.vc
	// place of struct type
	if base.pl != nil && base.t == "" {
		if i, ok := fieldIndex(base.pl.typ, name); ok {
			if !transparentStruct(base.pl.typ) {
				e.errf("field %s of opaque type %s", name, base.pl.typ)
			}
			return &sym{typ: base.pl.typ.Underlying().(*types.Struct).Field(i).Type(), pl: base.pl.extend(i)}
		}
		// pointer-typed place: read it and continue
		if derefType(base.pl.typ) != nil {
			return e.selectField(e.read(base), name, x)
		}
		// embedded field promotion (one level)
		if st, ok := base.pl.typ.Underlying().(*types.Struct); ok {
			for i := 0; i < st.NumFields(); i++ {
				if st.Field(i).Embedded() {
					inner := &sym{typ: st.Field(i).Type(), pl: base.pl.extend(i)}
					if _, ok := fieldIndex(derefOrSelf(st.Field(i).Type()), name); ok {
						return e.selectField(inner, name, x)
					}
				}
			}
		}
		e.errf("no field %s in %s (%s)", name, base.pl.typ, x)
	}
	// an interior pointer handed over as an argument (&xs[i], &x.f): its target is the place itself
	if base.pl != nil && base.t != "" {
		if pt := derefType(base.typ); pt != nil && types.Identical(pt, base.pl.typ) {
			return e.selectField(&sym{typ: base.pl.typ, pl: base.pl}, name, x)
		}
	}
	// pointer value
	if pt := derefType(base.typ); pt != nil {
		if !transparentStruct(pt) {
			e.errf("field %s of opaque type %s", name, pt)
		}
		pl := &place{kind: plField, root: base.t, rootT: pt, typ: pt}
		return e.selectField(&sym{typ: pt, pl: pl}, name, x)
	}
	// struct value
	if i, ok := fieldIndex(base.typ, name); ok && transparentStruct(base.typ) {
		ft := base.typ.Underlying().(*types.Struct).Field(i).Type()
		return &sym{t: "(" + vc.w.so.accessor(base.typ, i) + " " + base.t + ")", typ: ft}
	}
	if st, ok := base.typ.Underlying().(*types.Struct); ok && transparentStruct(base.typ) {
		for i := 0; i < st.NumFields(); i++ {
			if st.Field(i).Embedded() {
				if _, ok := fieldIndex(derefOrSelf(st.Field(i).Type()), name); ok {
					inner := &sym{t: "(" + vc.w.so.accessor(base.typ, i) + " " + base.t + ")", typ: st.Field(i).Type()}
					return e.selectField(inner, name, x)
				}
			}
		}
	}
	e.errf("cannot select .%s from %s (type %s)", name, x, base.typ)
	return nil
}

func derefOrSelf(t types.Type) types.Type {
	if d := derefType(t); d != nil {
		return d
	}
	return t
}

func (e *env) binary(x *EBin) *sym {
	so := e.vc.w.so
	switch x.Op {
	case "&&":
		return &sym{t: and(e.boolExpr(x.X), e.boolExpr(x.Y)), typ: tBool}
	case "||":
		return &sym{t: or(e.boolExpr(x.X), e.boolExpr(x.Y)), typ: tBool}
	case "==>":
		return &sym{t: imp(e.boolExpr(x.X), e.boolExpr(x.Y)), typ: tBool}
	case "<==>":
		return &sym{t: eq(e.boolExpr(x.X), e.boolExpr(x.Y)), typ: tBool}
	}
	a, b := e.rvalue(x.X), e.rvalue(x.Y)
	sa, sb := so.sortOf(a.typ), so.sortOf(b.typ)
	_, aNil := x.X.(*ENil)
	_, bNil := x.Y.(*ENil)
	switch x.Op {
	case "==", "!=":
		var t string
		switch {
		case bNil:
			t = nilTest(a.t, sa)
		case aNil:
			t = nilTest(b.t, sb)
		case sa == "Iface" && sb == "Iface":
			t = ifaceEq(a.t, b.t)
		case sa != sb:
			e.errf("comparison of different sorts %s (%s) and %s (%s)", x.X, sa, x.Y, sb)
		default:
			t = eq(a.t, b.t)
		}
		if x.Op == "!=" {
			t = not(t)
		}
		return &sym{t: t, typ: tBool}
	case "<", "<=", ">", ">=":
		if sa == "String" {
			switch x.Op {
			case "<":
				return &sym{t: "(str.< " + a.t + " " + b.t + ")", typ: tBool}
			case "<=":
				return &sym{t: "(str.<= " + a.t + " " + b.t + ")", typ: tBool}
			case ">":
				return &sym{t: "(str.< " + b.t + " " + a.t + ")", typ: tBool}
			default:
				return &sym{t: "(str.<= " + b.t + " " + a.t + ")", typ: tBool}
			}
		}
		return &sym{t: "(" + x.Op + " " + a.t + " " + b.t + ")", typ: tBool}
	case "+":
		if sa == "String" {
			return &sym{t: "(str.++ " + a.t + " " + b.t + ")", typ: a.typ}
		}
		return &sym{t: "(+ " + a.t + " " + b.t + ")", typ: a.typ}
	case "-":
		return &sym{t: "(- " + a.t + " " + b.t + ")", typ: a.typ}
	case "*":
		return &sym{t: "(* " + a.t + " " + b.t + ")", typ: a.typ}
	case "/":
		return &sym{t: "(div " + a.t + " " + b.t + ")", typ: a.typ}
	case "%":
		return &sym{t: "(mod " + a.t + " " + b.t + ")", typ: a.typ}
	}
	e.errf("operator %s", x.Op)
	return nil
}

func nilTest(t, sort string) string {
	switch sort {
	case "Ref":
		return eq(t, "nil")
	case "Slice":
		return eq("(sbase "+t+")", "nil")
	case "Iface":
		return "(= (itag " + t + ") 0)"
	}
	fail("spec: comparison of %s (sort %s) with nil", t, sort)
	return ""
}

func (e *env) call(x *ECall) *sym {
	vc := e.vc
	so := vc.w.so
	arg := func(i int) *sym {
		if i >= len(x.Args) {
			e.errf("%s: missing argument %d", x.F, i)
		}
		return e.rvalue(x.Args[i])
	}
	switch x.F {
	case "len":
		a := arg(0)
		switch u := a.typ.Underlying().(type) {
		case *types.Slice:
			return &sym{t: "(slen " + a.t + ")", typ: tInt}
		case *types.Basic:
			return &sym{t: "(str.len " + a.t + ")", typ: tInt}
		case *types.Array:
			return &sym{t: fmt.Sprint(u.Len()), typ: tInt}
		}
		e.errf("len of %s", a.typ)
	case "has":
		m, k := arg(0), arg(1)
		mt, ok := m.typ.Underlying().(*types.Map)
		if !ok {
			e.errf("has: not a map: %s", x.Args[0])
		}
		if m.bound != nil {
			e.errf("has: ghost maps are total")
		}
		_, okc := e.f.mapLookup(e.cur, mt, m.t, k.t)
		return &sym{t: okc, typ: tBool}
	case "inslice":
		// inslice(s, lo, k): k occurs in s at an index >= lo
		s, lo, k := arg(0), arg(1), arg(2)
		sl, ok := s.typ.Underlying().(*types.Slice)
		if !ok {
			e.errf("inslice: not a slice: %s", x.Args[0])
		}
		fn := vc.memFn(sl.Elem())
		content := fmt.Sprintf("(select %s (sbase %s))", vc.hget(e.cur, vc.elemKey(sl.Elem())), s.t)
		return &sym{t: fmt.Sprintf("(%s %s (soff %s) (slen %s) %s %s)", fn, content, s.t, s.t, lo.t, k.t), typ: tBool}
	case "hasPrefix":
		return &sym{t: "(str.prefixof " + arg(1).t + " " + arg(0).t + ")", typ: tBool}
	case "hasSuffix":
		return &sym{t: "(str.suffixof " + arg(1).t + " " + arg(0).t + ")", typ: tBool}
	case "contains":
		return &sym{t: "(str.contains " + arg(0).t + " " + arg(1).t + ")", typ: tBool}
	case "indexOf":
		return &sym{t: "(str.indexof " + arg(0).t + " " + arg(1).t + " 0)", typ: tInt}
	case "substr":
		return &sym{t: "(str.substr " + arg(0).t + " " + arg(1).t + " " + arg(2).t + ")", typ: tString}
	case "replaceAll":
		return &sym{t: "(str.replace_all " + arg(0).t + " " + arg(1).t + " " + arg(2).t + ")", typ: tString}
	case "itoa":
		a := arg(0)
		return &sym{t: "(ite (>= " + a.t + " 0) (str.from_int " + a.t + ") (str.++ \"-\" (str.from_int (- " + a.t + "))))", typ: tString}
	case "isType", "asType":
		a := arg(0)
		if len(x.Args) != 2 {
			e.errf("%s(x, T)", x.F)
		}
		tyText := strings.ReplaceAll(x.Args[1].String(), " ", "")
		if sl, ok := x.Args[1].(*EStr); ok {
			tyText = sl.V
		}
		ty, err := vc.w.lookupType(tyText, e.pkgPath)
		if err != nil {
			e.errf("%v", err)
		}
		if x.F == "isType" {
			return &sym{t: eq("(itag "+a.t+")", fmt.Sprint(so.typeID(ty))), typ: tBool}
		}
		return &sym{t: e.f.unpackIface(ty, a.t), typ: ty}
	case "isClosure":
		// isClosure(f, "name"): statically true iff the function value is a closure of the named function
		a := e.value(x.Args[0])
		nm, ok := x.Args[1].(*EStr)
		if !ok {
			e.errf("isClosure(f, \"name\")")
		}
		if a.clos != nil && a.clos.fn != nil {
			full := nameOf(a.clos.fn)
			pk := ""
			if a.clos.fn.Pkg != nil {
				pk = a.clos.fn.Pkg.Pkg.Path()
			}
			if relName(full, pk) == nm.V || full == nm.V {
				return &sym{t: "true", typ: tBool}
			}
		}
		return &sym{t: "false", typ: tBool}
	case "wasAllocated":
		// the object denoted now by the argument already existed in the old state
		if e.old == nil {
			e.errf("wasAllocated() needs an old state")
		}
		a := arg(0)
		t := a.t
		if so.sortOf(a.typ) == "Slice" {
			t = "(sbase " + t + ")"
		}
		return &sym{t: "(select " + vc.hget(e.old, vc.allocKey()) + " " + t + ")", typ: tBool}
	case "allocated":
		a := arg(0)
		t := a.t
		if so.sortOf(a.typ) == "Slice" {
			t = "(sbase " + t + ")"
		}
		return &sym{t: "(select " + vc.hget(e.cur, vc.allocKey()) + " " + t + ")", typ: tBool}
	case "visited":
		// visited(loopOrdinal, key)
		li := e.loopByOrdinal(x.Args[0])
		k := arg(1)
		rg := e.rangeOfLoop(li)
		if rg == nil {
			e.errf("visited: loop is not a map range")
		}
		return &sym{t: "(select " + e.f.visitedAt(rg, e.cur) + " " + k.t + ")", typ: tBool}
	case "deref":
		// deref(p): the location a pointer to a non-struct value (e.g. *[]T, *string) points to
		a := e.rvalue(x.Args[0])
		av := e.value(x.Args[0])
		if av.pl != nil && av.t != "" && derefType(av.typ) != nil {
			return &sym{typ: derefType(av.typ), pl: av.pl}
		}
		if derefType(a.typ) == nil {
			e.errf("deref of non-pointer %s", x.Args[0])
		}
		return &sym{typ: derefType(a.typ), pl: vc.placeOfPointer(a)}
	case "mapref", "sliceref", "ref":
		return arg(0)
	case "upd":
		m, k, v := arg(0), arg(1), arg(2)
		if m.bound == nil {
			e.errf("upd: first argument must be a ghost map")
		}
		return &sym{t: "(store " + m.t + " " + k.t + " " + v.t + ")", typ: m.typ, bound: m.bound}
	}
	d := vc.w.defs[x.F]
	if d == nil {
		e.errf("unknown function %s", x.F)
	}
	switch d.Kind {
	case "pred", "sfunc":
		if len(x.Args) != len(d.Params) {
			e.errf("%s: %d arguments for %d parameters", x.F, len(x.Args), len(d.Params))
		}
		if d.Rec {
			return e.recCall(d, x)
		}
		if e.depth > 20 {
			e.errf("%s: expansion too deep (recursive definition?)", x.F)
		}
		n := &env{f: e.f, vc: vc, vars: map[string]*sym{}, cur: e.cur, old: e.old, pkgPath: d.Pkg, typesOnly: e.typesOnly, depth: e.depth + 1}
		for i, b := range d.Params {
			a := e.value(x.Args[i])
			// keep places as places (so that preds can take struct places), but read leaf places
			if a.pl != nil && a.t == "" && !transparentStruct(a.pl.typ) {
				a = e.read(a)
			}
			n.vars[b.Name] = a
		}
		r := n.rvalue(d.Body)
		if d.Kind == "pred" {
			return &sym{t: r.t, typ: tBool}
		}
		return r
	case "ufunc":
		name := "sf_" + mangle(d.Name)
		var sorts, terms []string
		for i, b := range d.Params {
			ty, err := vc.w.lookupType(b.Type, d.Pkg)
			if err != nil {
				e.errf("%v", err)
			}
			sorts = append(sorts, so.sortOf(ty))
			terms = append(terms, arg(i).t)
		}
		rty, err := vc.w.lookupType(d.Result, d.Pkg)
		if err != nil {
			e.errf("%v", err)
		}
		if !vc.declared[name] {
			vc.declared[name] = true
			vc.emit(fmt.Sprintf("(declare-fun %s (%s) %s)", name, strings.Join(sorts, " "), so.sortOf(rty)))
			vc.axiomsFor(d.Name)
		}
		t := name
		if len(terms) > 0 {
			t = "(" + name + " " + strings.Join(terms, " ") + ")"
		}
		return &sym{t: t, typ: rty}
	}
	e.errf("%s is a %s, not callable", x.F, d.Kind)
	return nil
}

// axiomsFor emits the assumed axioms that mention a spec function, once it is declared.
func (vc *FnVC) axiomsFor(ufunc string) {
	for _, n := range vc.w.defOrder {
		d := vc.w.defs[n]
		if d.Kind != "axiom" && !(d.Kind == "lemma" && vc.lemmaUsable(d)) {
			continue
		}
		if vc.declared["ax:"+d.Name] {
			continue
		}
		if !mentions(d.Body, ufunc) {
			continue
		}
		// all ufuncs mentioned must be declared: declare on demand by translating
		vc.declared["ax:"+d.Name] = true
		vc.emitAxiom(d)
	}
}

func (vc *FnVC) lemmaUsable(d *SpecDef) bool { return false }

func (vc *FnVC) emitAxiom(d *SpecDef) {
	f := &frame{vc: vc, names: map[string]*sym{}}
	if vc.fn != nil {
		f.fn = vc.fn
	}
	e := &env{f: f, vc: vc, vars: map[string]*sym{}, cur: &state{h: map[string]string{}, epoch: 0, havocked: "false"}, pkgPath: d.Pkg}
	e.old = e.cur
	var binders []string
	for _, b := range d.Params {
		ty, err := vc.w.lookupType(b.Type, d.Pkg)
		if err != nil {
			fail("axiom %s: %v", d.Name, err)
		}
		vc.n++
		name := fmt.Sprintf("ax_%s_%d", mangle(b.Name), vc.n)
		e.vars[b.Name] = &sym{t: name, typ: ty}
		binders = append(binders, "("+name+" "+vc.w.so.sortOf(ty)+")")
	}
	// translate into a scratch buffer first so that declarations triggered by the body precede the assert
	body := e.boolExpr(d.Body)
	if len(binders) > 0 {
		// trigger: a set of spec-function applications over bound variables only that together mention
		// every bound variable (keeps the instantiation of assumed axioms finite and predictable)
		var cands []*ECall
		collectUfuncApps(vc.w, d.Body, &cands)
		bound := map[string]bool{}
		for _, b := range d.Params {
			bound[b.Name] = true
		}
		covered := map[string]bool{}
		var pats []string
		for _, c := range cands {
			ok := true
			adds := false
			for _, a := range c.Args {
				id, isId := a.(*EIdent)
				if !isId || !bound[id.Name] {
					ok = false
					break
				}
				if !covered[id.Name] {
					adds = true
				}
			}
			if ok && adds {
				pats = append(pats, e.rvalue(c).t)
				for _, a := range c.Args {
					covered[a.(*EIdent).Name] = true
				}
			}
		}
		if len(covered) == len(bound) && len(pats) > 0 {
			body = "(! " + body + " :pattern (" + strings.Join(pats, " ") + "))"
		}
		vc.emit("(assert (forall (" + strings.Join(binders, " ") + ") " + body + "))")
	} else {
		vc.emit("(assert " + body + ")")
	}
	vc.w.assumedUsed["axiom "+d.Name] = true
}

func mentions(x Expr, name string) bool {
	switch x := x.(type) {
	case *ECall:
		if x.F == name {
			return true
		}
		for _, a := range x.Args {
			if mentions(a, name) {
				return true
			}
		}
	case *EBin:
		return mentions(x.X, name) || mentions(x.Y, name)
	case *EUn:
		return mentions(x.X, name)
	case *ESel:
		return mentions(x.X, name)
	case *EIdx:
		return mentions(x.X, name) || mentions(x.I, name)
	case *ESlice:
		return mentions(x.X, name) || (x.Lo != nil && mentions(x.Lo, name)) || (x.Hi != nil && mentions(x.Hi, name))
	case *EOld:
		return mentions(x.X, name)
	case *EIter:
		return mentions(x.X, name)
	case *EEntry:
		return mentions(x.X, name)
	case *EQuant:
		return mentions(x.Body, name)
	case *EIte:
		return mentions(x.C, name) || mentions(x.A, name) || mentions(x.B, name)
	}
	return false
}

func (e *env) loopByOrdinal(x Expr) *loopInfo {
	n, ok := x.(*EInt)
	if !ok {
		e.errf("loop ordinal must be a literal")
	}
	top := e.f
	if p := e.f.parent(); p != nil {
		top = p
	}
	for _, li := range top.loops {
		if fmt.Sprint(li.ordinal) == n.V {
			return li
		}
	}
	e.errf("no loop %s", n.V)
	return nil
}

func (e *env) rangeOfLoop(li *loopInfo) *ssa.Range {
	for b := range li.blocks {
		for _, in := range b.Instrs {
			if nx, ok := in.(*ssa.Next); ok && !nx.IsString {
				if rg, ok := nx.Iter.(*ssa.Range); ok && b == li.header {
					return rg
				}
			}
		}
	}
	return nil
}

// ---------- modifies locations ----------

type keyLoc struct {
	key string
	ref string // "" = whole heap
}

func (e *env) modPlace(x Expr) []keyLoc {
	vc := e.vc
	if c, ok := x.(*ECall); ok && c.F == "contents" && len(c.Args) == 1 {
		v := e.rvalue(c.Args[0])
		switch u := v.typ.Underlying().(type) {
		case *types.Map:
			d, val := vc.mapKeys(u)
			return []keyLoc{{d, v.t}, {val, v.t}}
		case *types.Slice:
			return []keyLoc{{vc.elemKey(u.Elem()), "(sbase " + v.t + ")"}}
		}
		e.errf("contents() of %s", v.typ)
	}
	s := e.value(x)
	if s.pl == nil || s.t != "" {
		// a pointer value: everything it points to
		if pt := derefType(s.typ); pt != nil {
			pl := vc.placeOfPointer(s)
			var out []keyLoc
			for _, k := range vc.keysOfPlace(pl) {
				out = append(out, keyLoc{k, s.t})
			}
			return out
		}
		e.errf("modifies: %s is not a location", x)
	}
	var out []keyLoc
	switch s.pl.kind {
	case plField:
		for _, k := range vc.keysOfPlace(s.pl) {
			out = append(out, keyLoc{k, s.pl.root})
		}
	case plCell:
		out = append(out, keyLoc{vc.cellKey(s.pl.elemT), s.pl.root})
	case plElem:
		out = append(out, keyLoc{vc.elemKey(s.pl.elemT), s.pl.base})
	case plGlobal:
		out = append(out, keyLoc{vc.globalKey(s.pl.glob), ""})
	}
	return out
}

// heapKeysOfSpec resolves "T.f.g", "elems(T)", "cell(T)", "map(K,V)", "alloc".
func (e *env) heapKeysOfSpec(spec string) []string {
	vc := e.vc
	spec = strings.ReplaceAll(spec, " ", "")
	switch {
	case spec == "alloc":
		return []string{vc.allocKey()}
	case strings.HasPrefix(spec, "elems("):
		t, err := vc.w.lookupType(spec[6:len(spec)-1], e.pkgPath)
		if err != nil {
			e.errf("%v", err)
		}
		return []string{vc.elemKey(t)}
	case strings.HasPrefix(spec, "cell("):
		t, err := vc.w.lookupType(spec[5:len(spec)-1], e.pkgPath)
		if err != nil {
			e.errf("%v", err)
		}
		return []string{vc.cellKey(t)}
	case strings.HasPrefix(spec, "map("):
		parts := splitTopComma(spec[4 : len(spec)-1])
		if len(parts) != 2 {
			e.errf("map(K,V)")
		}
		k, err1 := vc.w.lookupType(parts[0], e.pkgPath)
		v, err2 := vc.w.lookupType(parts[1], e.pkgPath)
		if err1 != nil || err2 != nil {
			e.errf("bad map heap spec %s", spec)
		}
		d, val := vc.mapKeys(types.NewMap(k, v))
		return []string{d, val}
	}
	// Type.path — the type name may be qualified (pkg.T)
	parts := strings.Split(spec, ".")
	for n := 1; n <= 2 && n <= len(parts); n++ {
		tn := strings.Join(parts[:n], ".")
		t, err := vc.w.lookupType(tn, e.pkgPath)
		if err != nil || !transparentStruct(t) {
			continue
		}
		var path []int
		cur := t
		ok := true
		for _, fnm := range parts[n:] {
			i, found := fieldIndex(cur, fnm)
			if !found {
				ok = false
				break
			}
			path = append(path, i)
			cur = cur.Underlying().(*types.Struct).Field(i).Type()
		}
		if !ok {
			continue
		}
		return vc.keysOfPlace(&place{kind: plField, rootT: t, path: path, typ: cur})
	}
	e.errf("cannot resolve heap spec %q in %s", spec, e.pkgPath)
	return nil
}

// ---------- recursive spec functions (define-fun-rec with the heaps they read as parameters) ----------

func (e *env) recCall(d *SpecDef, x *ECall) *sym {
	vc := e.vc
	if vc.recs == nil {
		vc.recs = map[string]*recInfo{}
	}
	info := vc.recs[d.Name]
	if info == nil {
		info = vc.defineRec(d)
	}
	var terms []string
	for i := range d.Params {
		terms = append(terms, e.rvalue(x.Args[i]).t)
	}
	if !info.done && e.cur.param == nil {
		e.errf("recursive spec function %s used while being defined", d.Name)
	}
	for _, k := range info.keys {
		terms = append(terms, vc.hget(e.cur, k))
	}
	if !info.done {
		// inside the definition (first pass): the heap parameter list is not final yet; force the heaps of
		// the enclosing definition to be the ones passed on
		return &sym{t: "(" + info.name + " " + strings.Join(terms, " ") + ")", typ: info.rty}
	}
	return &sym{t: "(" + info.name + " " + strings.Join(terms, " ") + ")", typ: info.rty}
}

func (vc *FnVC) defineRec(d *SpecDef) *recInfo {
	rty, err := vc.w.lookupType(d.Result, d.Pkg)
	if err != nil {
		fail("sfunc %s: %v", d.Name, err)
	}
	info := &recInfo{name: "sf_" + mangle(d.Name), rty: rty}
	vc.recs[d.Name] = info
	var body string
	var binders []string
	// iterate until the set of heaps read is stable (the recursive call passes the same heaps on)
	for pass := 0; pass < 4; pass++ {
		keys := append([]string{}, info.keys...)
		pst := &state{h: map[string]string{}, havocked: "false", param: &keys}
		f := &frame{vc: vc, names: map[string]*sym{}, fn: vc.fn}
		en := &env{f: f, vc: vc, vars: map[string]*sym{}, cur: pst, old: nil, pkgPath: d.Pkg}
		binders = nil
		for _, b := range d.Params {
			ty, err := vc.w.lookupType(b.Type, d.Pkg)
			if err != nil {
				fail("sfunc %s: %v", d.Name, err)
			}
			n := "rp_" + mangle(b.Name)
			en.vars[b.Name] = &sym{t: n, typ: ty}
			binders = append(binders, "("+n+" "+vc.w.so.sortOf(ty)+")")
		}
		body = en.rvalue(d.Body).t
		if len(keys) == len(info.keys) {
			break
		}
		info.keys = keys
	}
	for _, k := range info.keys {
		binders = append(binders, "(hp_"+mangle(k)+" "+vc.heapSort(k)+")")
	}
	vc.emit(fmt.Sprintf("(define-fun-rec %s (%s) %s %s)", info.name, strings.Join(binders, " "), vc.w.so.sortOf(rty), body))
	info.done = true
	return info
}

func collectUfuncApps(w *World, x Expr, out *[]*ECall) {
	switch x := x.(type) {
	case *ECall:
		if d := w.defs[x.F]; d != nil && d.Kind == "ufunc" {
			*out = append(*out, x)
		}
		for _, a := range x.Args {
			collectUfuncApps(w, a, out)
		}
	case *EBin:
		collectUfuncApps(w, x.X, out)
		collectUfuncApps(w, x.Y, out)
	case *EUn:
		collectUfuncApps(w, x.X, out)
	case *ESel:
		collectUfuncApps(w, x.X, out)
	case *EIdx:
		collectUfuncApps(w, x.X, out)
		collectUfuncApps(w, x.I, out)
	case *EOld:
		collectUfuncApps(w, x.X, out)
	case *EQuant:
		collectUfuncApps(w, x.Body, out)
	case *EIte:
		collectUfuncApps(w, x.C, out)
		collectUfuncApps(w, x.A, out)
		collectUfuncApps(w, x.B, out)
	}
}

// ufuncApp declares (on demand) and applies an uninterpreted spec function to SMT terms.
func (vc *FnVC) ufuncApp(name string, terms ...string) (string, bool) {
	d := vc.w.defs[name]
	if d == nil || d.Kind != "ufunc" || len(d.Params) != len(terms) {
		return "", false
	}
	fn := "sf_" + mangle(d.Name)
	if !vc.declared[fn] {
		var sorts []string
		for _, b := range d.Params {
			ty, err := vc.w.lookupType(b.Type, d.Pkg)
			if err != nil {
				return "", false
			}
			sorts = append(sorts, vc.w.so.sortOf(ty))
		}
		rty, err := vc.w.lookupType(d.Result, d.Pkg)
		if err != nil {
			return "", false
		}
		vc.declared[fn] = true
		vc.emit(fmt.Sprintf("(declare-fun %s (%s) %s)", fn, strings.Join(sorts, " "), vc.w.so.sortOf(rty)))
		vc.axiomsFor(d.Name)
	}
	return "(" + fn + " " + strings.Join(terms, " ") + ")", true
}

// memFn declares (once per element sort) the membership predicate behind the spec builtin inslice(s, lo, k):
// mem(c, off, len, lo, k) <=> k occurs in the slice with contents c, offset off and length len at an index >= lo.
func (vc *FnVC) memFn(elem types.Type) string {
	es := vc.w.so.sortOf(elem)
	fn := "mem_" + mangle(es)
	if !vc.declared[fn] {
		vc.declared[fn] = true
		// uninterpreted with its one-step unfolding as a triggered axiom (define-fun-rec made the solvers time out)
		vc.emit(fmt.Sprintf("(declare-fun %s ((Array Int %s) Int Int Int %s) Bool)", fn, es, es))
		vc.emit(fmt.Sprintf("(assert (forall ((c (Array Int %s)) (off Int) (len Int) (lo Int) (k %s)) (! (= (%s c off len lo k) (and (<= 0 lo) (< lo len) (or (= (select c (+ off lo)) k) (%s c off len (+ lo 1) k)))) :pattern ((%s c off len lo k)))))", es, es, fn, fn, fn))
	}
	return fn
}
