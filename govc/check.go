package main

// Property checks: select the contracts that carry a property, generate and discharge their obligations,
// compare with the expected obligation list, apply known findings, run bounded stand-ins, write evidence.

import (
	"encoding/json"
	"fmt"
	"os"
	"path/filepath"
	"regexp"
	"sort"
	"strconv"
	"strings"
	"time"
)

type checkResult struct {
	prop       string
	obls       []*Obligation
	failed     []*Obligation
	genErrors  []string
	functions  []string
	trustedFns []string
	standins   []standinResult
	// interface-method contracts checked against the contracts of their implementations (refine.go)
	refinements []string
	refSkipped  int
}

func hasProp(ps []string, p string) bool {
	for _, x := range ps {
		if x == p {
			return true
		}
	}
	return false
}

func contractServes(c *Contract, p string) bool {
	if hasProp(c.Props, p) {
		return true
	}
	for _, cl := range c.Ensures {
		if hasProp(cl.Props, p) {
			return true
		}
	}
	for _, cl := range c.Sites {
		if hasProp(cl.Props, p) {
			return true
		}
	}
	for _, cls := range c.LoopInv {
		for _, cl := range cls {
			if hasProp(cl.Props, p) {
				return true
			}
		}
	}
	return false
}

// generate builds every obligation that serves property p.
func (w *World) generate(p string) *checkResult {
	res := &checkResult{prop: p}
	w.curProp = p
	defer func() { w.curProp = "" }()
	var names []string
	for n := range w.contracts {
		names = append(names, n)
	}
	sort.Strings(names)
	for _, n := range names {
		c := w.contracts[n]
		if c.Assumed || c.Inline || !contractServes(c, p) {
			continue // an `inline` function is verified wherever it is inlined
		}
		short := relName(n, c.Pkg)
		pk := strings.TrimPrefix(strings.TrimPrefix(c.Pkg, repoMod+"/"), "internal/")
		fname := pk + "." + short
		if c.Trusted {
			res.trustedFns = append(res.trustedFns, fname)
			if w.funcOf(n) == nil && !w.interfaceMethodExists(n) {
				res.failed = append(res.failed, &Obligation{Name: fname + "#bind", Kind: "bind", Func: fname, Props: []string{p}, Status: "unbound", Clause: "trusted contract refers to a function that does not exist", Pos: fmt.Sprintf("%s:%d", c.File, c.Line)})
			}
			continue
		}
		fn := w.funcOf(n)
		if fn == nil {
			o := &Obligation{Name: fname + "#bind", Kind: "bind", Func: fname, Props: []string{p}, Status: "unbound", Clause: "contract refers to a function that does not exist (renamed or removed)", Pos: fmt.Sprintf("%s:%d", c.File, c.Line)}
			res.obls = append(res.obls, o)
			continue
		}
		vc, err := w.verifyFunction(fn, c)
		if err != nil {
			o := &Obligation{Name: fname + "#bind", Kind: "bind", Func: fname, Props: []string{p}, Status: "generror", Clause: "contract no longer fits the code: " + err.Error(), Pos: fmt.Sprintf("%s:%d", c.File, c.Line)}
			res.obls = append(res.obls, o)
			res.genErrors = append(res.genErrors, err.Error())
			continue
		}
		res.functions = append(res.functions, fname)
		for _, o := range vc.obls {
			if o.Kind == "cover" || hasProp(o.Props, p) {
				res.obls = append(res.obls, o)
			}
		}
	}
	for _, rp := range w.refinementPairs() {
		if !contractServes(rp.ci, p) {
			continue
		}
		vc, err := w.verifyRefinement(rp)
		if err != nil {
			nm := "refine:" + relName(rp.implKey, rp.ct.Pkg)
			o := &Obligation{Name: nm + "#bind", Kind: "bind", Func: nm, Props: []string{p}, Status: "generror", Clause: "interface contract and implementation contract no longer fit: " + err.Error(), Pos: fmt.Sprintf("%s:%d", rp.ci.File, rp.ci.Line)}
			res.obls = append(res.obls, o)
			continue
		}
		res.refinements = append(res.refinements, vc.fnName)
		res.refSkipped += len(vc.skipped)
		for _, o := range vc.obls {
			if o.Kind == "cover" || hasProp(o.Props, p) {
				res.obls = append(res.obls, o)
			}
		}
	}
	for _, d := range w.lemmas() {
		if !hasProp(d.Props, p) {
			continue
		}
		vc, err := w.lemmaVC(d)
		if err != nil {
			o := &Obligation{Name: "lemma." + d.Name + "#bind", Kind: "bind", Func: "lemma." + d.Name, Props: []string{p}, Status: "generror", Clause: err.Error(), Pos: fmt.Sprintf("%s:%d", d.File, d.Line)}
			res.obls = append(res.obls, o)
			continue
		}
		res.obls = append(res.obls, vc.obls...)
	}
	sort.SliceStable(res.obls, func(i, j int) bool { return res.obls[i].Name < res.obls[j].Name })
	return res
}

func stableName(o *Obligation) (string, bool) {
	switch o.Kind {
	case "safety", "cover", "unsupported":
		return "", false
	}
	if strings.HasPrefix(o.Kind, "safety") {
		// named after SSA registers: any edit of the function renumbers them
		return "", false
	}
	return o.Name, true
}

type expectedFile map[string][]string

func loadExpected(verif string) expectedFile {
	var e expectedFile
	b, err := os.ReadFile(filepath.Join(verif, "contracts", "expected_obligations.json"))
	if err != nil {
		return expectedFile{}
	}
	if json.Unmarshal(b, &e) != nil {
		return expectedFile{}
	}
	return e
}

type knownFinding struct {
	Prop, Obligation, Witness, Input, Text string
	Fixed                                  bool
	Raw                                    string
}

func loadKnown(verif string) []knownFinding {
	b, err := os.ReadFile(filepath.Join(verif, "known_findings.txt"))
	if err != nil {
		return nil
	}
	var out []knownFinding
	for _, l := range strings.Split(string(b), "\n") {
		l = strings.TrimSpace(l)
		if l == "" || strings.HasPrefix(l, "#") {
			continue
		}
		k := knownFinding{Raw: l}
		if strings.HasPrefix(l, "fixed:") {
			k.Fixed = true
			for _, f := range strings.Fields(l) {
				if strings.HasPrefix(f, "property=") {
					k.Prop = f[9:]
				}
			}
			out = append(out, k)
			continue
		}
		if !strings.HasPrefix(l, "finding:") {
			continue
		}
		head, text, _ := strings.Cut(l[len("finding:"):], "::")
		k.Text = strings.TrimSpace(text)
		// input="..." may contain spaces
		if i := strings.Index(head, "input=\""); i >= 0 {
			rest := head[i+7:]
			if j := strings.Index(rest, "\""); j >= 0 {
				k.Input = rest[:j]
				head = head[:i] + rest[j+1:]
			}
		}
		for _, f := range strings.Fields(head) {
			switch {
			case strings.HasPrefix(f, "property="):
				k.Prop = f[9:]
			case strings.HasPrefix(f, "obligation="):
				k.Obligation = f[11:]
			case strings.HasPrefix(f, "witness="):
				k.Witness = f[8:]
			}
		}
		out = append(out, k)
	}
	return out
}

func propertyIDs(verif string) []string {
	b, err := os.ReadFile(filepath.Join(verif, "properties.jsonl"))
	if err != nil {
		return nil
	}
	var ids []string
	for _, l := range strings.Split(string(b), "\n") {
		if strings.TrimSpace(l) == "" {
			continue
		}
		var p struct {
			ID string `json:"id"`
		}
		if json.Unmarshal([]byte(l), &p) == nil && p.ID != "" {
			ids = append(ids, p.ID)
		}
	}
	return ids
}

func runExpect(repo, verif string) int {
	w, err := loadWorld(repo, verif)
	if err != nil {
		fmt.Fprintln(os.Stderr, "load:", err)
		return 3
	}
	exp := expectedFile{}
	for _, p := range propertyIDs(verif) {
		res := w.generate(p)
		var names []string
		for _, o := range res.obls {
			if n, ok := stableName(o); ok && o.Kind != "bind" {
				names = append(names, n)
			}
		}
		for _, e := range res.genErrors {
			fmt.Fprintln(os.Stderr, "generror:", e)
		}
		sort.Strings(names)
		if len(names) > 0 {
			exp[p] = names
		}
	}
	if err := w.writeFunctions(verif); err != nil {
		fmt.Fprintln(os.Stderr, err)
		return 3
	}
	if nl, err := w.writeLocals(verif); err != nil {
		fmt.Fprintln(os.Stderr, err)
		return 3
	} else {
		fmt.Printf("locals.json: %d functions\n", nl)
	}
	b, _ := json.MarshalIndent(exp, "", " ")
	if err := os.WriteFile(filepath.Join(verif, "contracts", "expected_obligations.json"), append(b, '\n'), 0o644); err != nil {
		fmt.Fprintln(os.Stderr, err)
		return 3
	}
	n := 0
	for _, v := range exp {
		n += len(v)
	}
	fmt.Printf("expected_obligations.json: %d properties, %d named obligations\n", len(exp), n)
	return 0
}

// runCheckAll decides every property on one loaded tree, one after the other (a development aid for the self-tests:
// solver answers for byte-identical goals and stand-in runs are shared between the properties).
func runCheckAll(repo, verif, tier string) int {
	memoOn = true
	w, err := loadWorld(repo, verif)
	if err != nil {
		fmt.Fprintln(os.Stderr, "govc: cannot load:", err)
		return 3
	}
	rc := 0
	for _, p := range propertyIDs(verif) {
		if c := checkWith(w, repo, verif, p, tier); c > rc {
			rc = c
		}
	}
	fmt.Fprintf(os.Stderr, "govc: %d goals answered from this run's memo\n", memoHits)
	return rc
}

func runCheck(repo, verif, prop, tier string) int {
	return checkWith(nil, repo, verif, prop, tier)
}

func checkWith(w *World, repo, verif, prop, tier string) int {
	t0 := time.Now()
	seed := 0
	if s := os.Getenv("VERIF_SEED"); s != "" {
		if v, err := strconv.Atoi(s); err == nil {
			seed = v
		}
	}
	if t := os.Getenv("VERIF_TIER"); t != "" && len(os.Args) < 4 {
		tier = t
	}
	if tier != "thorough" {
		tier = "quick"
	}
	out := verif
	if outDir != "" {
		out = outDir
	}
	evPath := filepath.Join(out, "evidence", prop+".json")
	os.MkdirAll(filepath.Dir(evPath), 0o755)
	os.Remove(evPath)
	if w == nil {
		var err error
		w, err = loadWorld(repo, verif)
		if err != nil {
			// the tree does not load (does not compile, or a contract file does not parse): nothing can be decided
			fmt.Fprintln(os.Stderr, "govc: cannot load:", err)
			return 3
		}
	}
	res := w.generate(prop)
	tGen := time.Since(t0).Seconds()
	work := filepath.Join(out, "work", prop)
	os.RemoveAll(work)
	timeout := 10
	if tier == "thorough" {
		timeout = 60
	}
	discharge(w, res.obls, dischargeOpts{workDir: work, timeoutS: timeout, seed: seed, cross: tier == "thorough", jobs: 16})
	tDis := time.Since(t0).Seconds()
	if os.Getenv("VERIF_PROFILE") != "" {
		for _, o := range res.obls {
			if o.Seconds > 1.5 {
				fmt.Fprintf(os.Stderr, "profile   %.1fs %s %s %s\n", o.Seconds, o.Status, o.Solver, o.Name)
			}
		}
	}

	// verdicts
	expected := loadExpected(verif)[prop]
	present := map[string]bool{}
	var failed []*Obligation
	failed = append(failed, res.failed...)
	nObl, nDis, nCover, nVacuous := 0, 0, 0, 0
	var coverUndecided []string
	nCoverSat, nCoverCons := 0, 0
	byKind := map[string]int{}
	bySolver := map[string]int{}
	solverTime := 0.0
	nontrivial := map[string]bool{}
	unreachable := loadUnreachable(verif)
	nUnreach := 0
	for _, o := range res.obls {
		if n, ok := stableName(o); ok {
			present[n] = true
		}
		solverTime += o.Seconds
		if o.Kind == "cover" {
			nCover++
			switch o.Status {
			case "sat":
				nCoverSat++
			case "consistent":
				nCoverCons++
			case "unsat":
			default:
				coverUndecided = append(coverUndecided, o.Name)
			}
			if o.Status == "unsat" {
				if why, ok := unreachable[o.Name]; ok {
					// reviewed: this return cannot be taken under the function's contract (dead or excluded code)
					o.Clause += " — reviewed unreachable: " + why
					nUnreach++
					continue
				}
				nVacuous++
				o.Clause = "vacuity: " + o.Clause + " — the assumptions of this function are contradictory or this point is unreachable"
				failed = append(failed, o)
			}
			continue
		}
		nObl++
		byKind[o.Kind]++
		if o.Status == "unsat" {
			nDis++
			bySolver[o.Solver]++
			if o.Solver != "syntactic" {
				nontrivial[o.Name] = true
			}
		} else {
			failed = append(failed, o)
		}
	}
	// An expected obligation counts as still generated when an obligation with the same function, callee and label
	// exists at another call-site ordinal (a harmless refactoring that adds or removes a call moves the ordinals);
	// frame obligations exist per heap the code touches, so a frame that is no longer generated means the code
	// touches less — never a violation.
	presentNorm := map[string]bool{}
	for n := range present {
		presentNorm[normSiteName(n)] = true
	}
	for _, n := range expected {
		if strings.Contains(n, "#frame:") || strings.Contains(n, "#loopframe") {
			continue
		}
		if !present[n] && !presentNorm[normSiteName(n)] {
			o := &Obligation{Name: "gone:" + n, Kind: "gone", Props: []string{prop}, Status: "missing", Clause: "an obligation generated on the reference tree is no longer generated: the code it was about has disappeared or can no longer be bound"}
			nObl++
			failed = append(failed, o)
		}
	}
	// bounded stand-ins
	res.standins = runStandins(w, repo, verif, prop, tier, seed)
	if os.Getenv("VERIF_PROFILE") != "" {
		fmt.Fprintf(os.Stderr, "profile %s: load+generate %.1fs, discharge %.1fs, stand-ins %.1fs\n", prop, tGen, tDis-tGen, time.Since(t0).Seconds()-tDis)
	}
	// known findings
	known := loadKnown(verif)
	var violations []*Obligation
	var knownHit []string
	for _, o := range failed {
		matched := false
		for _, k := range known {
			if !k.Fixed && k.Prop == prop && k.Obligation == o.Name {
				matched = true
				knownHit = append(knownHit, fmt.Sprintf("KNOWN-FINDING: property=%s %s [%s] %s", prop, o.Name, k.Input, k.Text))
			}
		}
		if !matched {
			violations = append(violations, o)
		}
	}
	for _, s := range res.standins {
		var unlisted []standinViolation
		for _, v := range s.Violations {
			matched := false
			for _, k := range known {
				if !k.Fixed && k.Prop == prop && k.Obligation == s.Name && k.Input == v.Input {
					matched = true
					knownHit = append(knownHit, fmt.Sprintf("KNOWN-FINDING: property=%s %s [%s] %s", prop, s.Name, k.Input, k.Text))
				}
			}
			if !matched {
				unlisted = append(unlisted, v)
			}
		}
		if len(unlisted) > 0 {
			// one violation per stand-in; its replay file lists every failing input that was printed
			var inputs, outs []string
			for _, v := range unlisted {
				inputs = append(inputs, v.Input+" :: "+v.Text)
				outs = append(outs, v.Output)
			}
			violations = append(violations, &Obligation{Name: s.Name, Kind: "bounded", Status: "counterexample", Clause: unlisted[0].Text,
				Model: strings.Join(inputs, "\n"), Output: strings.Join(outs, "\n")})
		}
		if s.Broken != "" {
			fmt.Fprintf(os.Stderr, "govc: bounded stand-in %s could not run: %s\n", s.Name, s.Broken)
		}
	}
	for _, l := range knownHit {
		fmt.Println(l)
	}
	// replay + report
	repDir := filepath.Join(out, "replays", prop)
	os.MkdirAll(repDir, 0o755)
	for _, o := range violations {
		path := filepath.Join(repDir, trunc(mangle(o.Name), 120)+".txt")
		confirmed := writeReplay(w, repo, verif, prop, o, path)
		suffix := ""
		if !confirmed {
			suffix = " no-failing-input-found"
		}
		fmt.Printf("VIOLATION property=%s replay=%s obligation=%s%s\n", prop, path, o.Name, suffix)
	}
	// evidence
	var samples []any
	cnt := 0
	for _, o := range res.obls {
		if o.Kind == "cover" || o.Solver == "syntactic" {
			continue
		}
		if cnt%maxInt(1, len(res.obls)/6) == 0 && len(samples) < 8 {
			samples = append(samples, map[string]any{"obligation": o.Name, "kind": o.Kind, "position": o.Pos, "clause": trunc(strings.Join(strings.Fields(o.Clause), " "), 300), "status": o.Status, "solver": o.Solver, "seconds": round2(o.Seconds)})
		}
		cnt++
	}
	if len(samples) == 0 {
		for _, o := range res.obls {
			samples = append(samples, map[string]any{"obligation": o.Name, "kind": o.Kind, "status": o.Status})
			break
		}
	}
	var assumedList []string
	for k := range w.assumedUsed {
		assumedList = append(assumedList, k)
	}
	sort.Strings(assumedList)
	cf := map[string]string{}
	for k, v := range w.contractFilesInRepo {
		cf[strings.TrimPrefix(k, repoMod+"/")] = v
	}
	var standinEv []any
	for _, s := range res.standins {
		standinEv = append(standinEv, map[string]any{"name": s.Name, "function": s.Function, "bound": s.Bound, "cases": s.Cases, "violations": len(s.Violations), "label": "bounded (not counted in obligations/discharged)", "seconds": round2(s.Seconds), "broken": s.Broken})
	}
	// thorough tier: sampled audit of the executable assumed contracts against the real libraries
	var auditEv map[string]any
	auditBroken := ""
	if tier == "thorough" {
		txt, aerr := runOverlayTest(repo, "internal/dag", filepath.Join(verif, "audit", "assumed_audit_test.go"), "zz_verif_audit_test.go",
			"TestVerifAuditAssumedContracts", filepath.Join(out, "work", prop), []string{"VERIF_SEED=" + strconv.Itoa(seed)}, 300)
		m := regexp.MustCompile(`(?m)^VAUDIT checked=(\d+) failed=(\d+)`).FindStringSubmatch(txt)
		var fails []string
		for _, l := range strings.Split(txt, "\n") {
			if strings.HasPrefix(l, "VAUDIT-FAIL ") {
				fails = append(fails, l[len("VAUDIT-FAIL "):])
			}
		}
		switch {
		case m == nil:
			auditBroken = fmt.Sprintf("the audit of the assumed contracts did not run to completion (%v): %s", aerr, trunc(txt, 600))
		case m[2] != "0":
			auditBroken = "an assumed library contract disagrees with the real library: " + strings.Join(fails, "; ")
		}
		auditEv = map[string]any{"ran": m != nil, "disagreements": fails}
		if m != nil {
			auditEv["comparisons"], _ = strconv.Atoi(m[1])
		}
	}
	cov := map[string]any{
		"assumed_contract_audit": auditEv,
		"interface_refinement": map[string]any{"pairs": res.refinements, "clauses_not_comparable": res.refSkipped,
			"note": "postconditions of interface-method contracts that do not speak about observation ghosts are checked against the contract of each implementing method; the others, and all frames, stay trusted"},
		"renamed_locals":             w.renamedLocals,
		"renamed_functions":          w.renamedFuncs,
		"loops_moved_into_helpers":   w.movedLoops,
		"obligations":                nObl,
		"discharged":                 nDis,
		"checker_cmd":                fmt.Sprintf("/verif/bin/check %s %s  (govc: go/ssa of /repo -> SMT-LIB; z3-new 5.1.0, cvc5 1.0.3, z3 4.8.12)", prop, tier),
		"trusted_base":               trustedBase(),
		"evaluations":                len(res.obls),
		"distinct_nontrivial":        len(nontrivial),
		"rule":                       "one case per generated obligation (pre/post/inv/frame/site/lemma/safety/bind) of the functions under contract for this property; non-trivial = needed an SMT solver (not closed by syntactic simplification), distinct by obligation name",
		"samples":                    samples,
		"functions_under_contract":   res.functions,
		"trusted_function_contracts": res.trustedFns,
		"by_kind":                    byKind,
		"by_solver":                  bySolver,
		"solver_time_s":              round2(solverTime),
		"bounded_standins":           standinEv,
		"assumed_contracts_used":     assumedList,
		"dropped_by_translation":     droppedByTranslation(),
		"vacuity": map[string]any{"reviewed_unreachable_returns": nUnreach, "cover_queries": nCover, "vacuous": nVacuous, "covers_sat": nCoverSat, "covers_consistent": nCoverCons, "covers_undecided": len(coverUndecided), "covers_undecided_names": coverUndecided,
			"note": "a cover asks whether the assumptions at an exit are contradictory, with z3's trigger-based instantiation only (the instantiation the proofs rest on): sat = a model exists; consistent = the triggers are saturated and no contradiction was derived (the quantified heap axioms keep z3 from building a full model); unsat = vacuous (a violation unless the return is on the reviewed list); undecided = no answer in time", "expected_obligations": len(expected), "missing_expected": countKind(failed, "gone")},
		"known_findings_reported": len(knownHit),
		"contract_files":          cf,
		"per_solver_timeout_s":    timeout,
		"cross_solver_agreement":  tier == "thorough",
		"generator_notes":         w.notes,
	}
	ev := map[string]any{
		"property_id": prop, "tier": tier, "seed": seed, "level": "proof", "coverage": cov,
		"assumptions": assumptionsList(w, res),
		"wall_s":      round2(time.Since(t0).Seconds()),
		"violations":  len(violations),
	}
	b, _ := json.MarshalIndent(ev, "", " ")
	os.WriteFile(evPath, append(b, '\n'), 0o644)
	if verbose {
		for _, o := range res.obls {
			fmt.Fprintf(os.Stderr, "%-8s %-10s %6.2fs %s\n", o.Status, o.Solver, o.Seconds, o.Name)
		}
	}
	fmt.Fprintf(os.Stderr, "govc: %s %s: %d obligations, %d discharged, %d covers, %d stand-ins, %d violations, %d known findings, %.1fs\n",
		prop, tier, nObl, nDis, nCover, len(res.standins), len(violations), len(knownHit), time.Since(t0).Seconds())
	if nObl == 0 {
		fmt.Fprintf(os.Stderr, "govc: no obligations were generated for %s — broken machinery\n", prop)
		return 2
	}
	if len(violations) > 0 {
		return 1
	}
	if auditBroken != "" {
		// not a property violation: the machinery's own assumptions are wrong and nothing it says is to be believed
		fmt.Fprintf(os.Stderr, "govc: AUDIT-FAILED %s\n", auditBroken)
		return 3
	}
	return 0
}

func countKind(os_ []*Obligation, k string) int {
	n := 0
	for _, o := range os_ {
		if o.Kind == k {
			n++
		}
	}
	return n
}

func maxInt(a, b int) int {
	if a > b {
		return a
	}
	return b
}

func round2(f float64) float64 { return float64(int(f*100+0.5)) / 100 }

func trustedBase() []string {
	return []string{
		"go/packages + go/ssa (x/tools v0.29.0) build the SSA that the Go compiler's semantics agree with",
		"govc itself: SSA -> SMT translation (mitigated by the must-fail self-test corpus and cover queries)",
		"SMT solvers z3 5.1.0 / cvc5 1.0.3 / z3 4.8.12 (thorough tier: two solvers must agree when both answer)",
		"assumed contracts of library and dependency functions under /verif/contracts/assumed (listed in assumed_contracts_used)",
		"Go memory model for mutex-protected data; Lock/Unlock treated as atomic-action brackets",
		"operating system semantics behind os/exec, signals, sockets, rename(2)",
	}
}

func droppedByTranslation() []string {
	return []string{
		"machine-integer wrap-around (integers are mathematical)",
		"in-place append aliasing (append copies into a fresh backing array)",
		"goroutine scheduling other than through declared interference (rely) predicates",
		"channel contents (receive yields an unconstrained value)",
		"panics inside trusted library code; recover blocks",
		"float values (reals, operations unconstrained), struct padding, unsafe, finalizers",
		"interior pointers that escape as first-class values become opaque references",
		"termination (partial correctness only)",
	}
}

func assumptionsList(w *World, res *checkResult) []string {
	out := []string{
		"arithmetic is mathematical, not 64-bit",
		"every callee is represented by its contract only; callees without contract havoc all modelled state",
		"assumed (trusted) contracts for external functions: see coverage.assumed_contracts_used",
	}
	for _, t := range res.trustedFns {
		out = append(out, "trusted contract (body not verified): "+t)
	}
	return out
}

// ---------- replay ----------

func writeReplay(w *World, repo, verif, prop string, o *Obligation, path string) bool {
	var b strings.Builder
	fmt.Fprintf(&b, "property:   %s\nobligation: %s\nkind:       %s\nfunction:   %s\nposition:   %s\nclause:     %s\nstatus:     %s (solver %s)\n\n", prop, o.Name, o.Kind, o.Func, o.Pos, o.Clause, o.Status, o.Solver)
	if o.Output != "" {
		fmt.Fprintf(&b, "solver transcript:\n%s\n\n", o.Output)
	}
	confirmed := false
	if o.Kind == "bounded" {
		fmt.Fprintf(&b, "failing input of the real function (bounded stand-in):\n%s\n", o.Model)
		confirmed = true
	} else if len(o.ModelVal) > 0 {
		b.WriteString("counterexample (projected to parameters, loop variables and quantifier witnesses):\n")
		var ks []string
		for k := range o.ModelVal {
			if strings.HasPrefix(k, "p_") || strings.HasPrefix(k, "lphi") || strings.HasPrefix(k, "fv_") || strings.HasPrefix(k, "l_") {
				ks = append(ks, k)
			}
		}
		sort.Strings(ks)
		for _, k := range ks {
			fmt.Fprintf(&b, "  %s = %s\n", k, trunc(o.ModelVal[k], 400))
		}
		out, ok := replayOnRealCode(w, repo, verif, prop, o)
		if out != "" {
			fmt.Fprintf(&b, "\nreplay on the real code:\n%s\n", out)
		}
		confirmed = ok
		if o.Model != "" {
			fmt.Fprintf(&b, "\nfull model:\n%s\n", trunc(o.Model, 20000))
		}
	}
	if !confirmed {
		b.WriteString("\nno-failing-input-found: the verifier's answer could not be replayed as a concrete failing input on the real code.\n")
	}
	os.WriteFile(path, []byte(b.String()), 0o644)
	return confirmed
}

var siteOrdinalRe = regexp.MustCompile(`(#(?:site|pre)@[^#]*)#\d+:`)

// normSiteName drops the call-site ordinal from a site obligation's name.
func normSiteName(n string) string {
	return siteOrdinalRe.ReplaceAllString(n, "$1:")
}

// loadUnreachable reads contracts/unreachable_returns.txt: "<cover obligation name> :: <reason>" per line — return
// statements that were reviewed as not reachable under their function's contract on the reference tree.
func loadUnreachable(verif string) map[string]string {
	out := map[string]string{}
	b, err := os.ReadFile(filepath.Join(verif, "contracts", "unreachable_returns.txt"))
	if err != nil {
		return out
	}
	for _, l := range strings.Split(string(b), "\n") {
		l = strings.TrimSpace(l)
		if l == "" || strings.HasPrefix(l, "#") {
			continue
		}
		name, why, _ := strings.Cut(l, "::")
		out[strings.TrimSpace(name)] = strings.TrimSpace(why)
	}
	return out
}
