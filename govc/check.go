package main

func runCheck(repo, verif, prop, tier string) int   { return 2 }
func runExpect(repo, verif string) int              { return 2 }
func runSelftest(repo, verif string, a []string) int { return 2 }
