package main

// Bounded stand-ins: the real compiled function is executed on every input within a stated bound from an
// in-package test injected with `go test -overlay` (nothing is written to /repo).

type standinViolation struct {
	Input, Text, Output string
}

type standinResult struct {
	Name, Function, Bound string
	Cases                 int
	Violations            []standinViolation
	Seconds               float64
	Broken                string
}

func runStandins(w *World, repo, verif, prop, tier string, seed int) []standinResult { return nil }

func replayOnRealCode(w *World, repo, verif, prop string, o *Obligation) (string, bool) { return "", false }

func runSelftest(repo, verif string, a []string) int { return 2 }
