package main

// Bounded stand-ins: the real compiled function is executed on every input within a stated bound from an
// in-package test injected with `go test -overlay` (nothing is written to /repo).  They are reported under
// bounded_standins, never counted as obligations/discharged (DESIGN §2.12).

import (
	"encoding/json"
	"fmt"
	"go/types"
	"os"
	"os/exec"
	"path/filepath"
	"regexp"
	"strconv"
	"strings"
	"time"
	"unicode"
)

type standinViolation struct {
	Input, Text, Output string
}

type standinResult struct {
	Name, Function, Bound string
	Cases                 int
	Violations            []standinViolation
	Seconds               float64
	Broken                string
}

type standinSpec struct {
	Name     string   `json:"name"`
	Props    []string `json:"props"`
	Pkg      string   `json:"pkg"`
	File     string   `json:"file"`
	Test     string   `json:"test"`
	Function string   `json:"function"`
	Oracle   string   `json:"oracle"`
}

var reStandinCases = regexp.MustCompile(`(?m)^VSTANDIN cases=(\d+) violations=(\d+) bound=(.*)$`)
var reStandinViol = regexp.MustCompile(`(?m)^VSTANDIN-VIOLATION input=(.*?) :: (.*)$`)

func goEnv() []string {
	return append(os.Environ(), "GOFLAGS=-mod=mod", "GOPROXY=off", "GOSUMDB=off", "GOTOOLCHAIN=local")
}

// runOverlayTest injects file as <repo>/<pkg>/<name> and runs one test function of that package.
func runOverlayTest(repo, pkg, srcFile, asName, test, workDir string, extraEnv []string, timeoutS int) (string, error) {
	os.MkdirAll(workDir, 0o755)
	ov := filepath.Join(workDir, "overlay_"+mangle(asName)+".json")
	abs, _ := filepath.Abs(srcFile)
	b, _ := json.Marshal(map[string]any{"Replace": map[string]string{filepath.Join(repo, pkg, asName): abs}})
	if err := os.WriteFile(ov, b, 0o644); err != nil {
		return "", err
	}
	cmd := exec.Command("go", "test", "-overlay", ov, "-vet=off", "-count=1", fmt.Sprintf("-timeout=%ds", timeoutS), "-run", "^"+test+"$", "-v", "./"+pkg)
	cmd.Dir = repo
	cmd.Env = append(goEnv(), extraEnv...)
	out, err := cmd.CombinedOutput()
	return string(out), err
}

var standinMemo = map[string]standinResult{}

func runStandins(w *World, repo, verif, prop, tier string, seed int) []standinResult {
	b, err := os.ReadFile(filepath.Join(verif, "standin", "registry.json"))
	if err != nil {
		return nil
	}
	var specs []standinSpec
	if err := json.Unmarshal(b, &specs); err != nil {
		return []standinResult{{Name: "standin:registry", Broken: err.Error()}}
	}
	out := outDir
	if out == "" {
		out = verif
	}
	var res []standinResult
	for _, s := range specs {
		if !hasProp(s.Props, prop) {
			continue
		}
		if memoOn {
			if r, ok := standinMemo[s.Name+"|"+tier]; ok {
				res = append(res, r)
				continue
			}
		}
		t0 := time.Now()
		r := standinResult{Name: s.Name, Function: s.Function}
		timeout := 300
		if tier == "thorough" {
			timeout = 1800
		}
		txt, rerr := runOverlayTest(repo, s.Pkg, filepath.Join(verif, "standin", s.File), "zz_verif_standin_test.go", s.Test,
			filepath.Join(out, "work", prop), []string{"VERIF_TIER=" + tier, "VERIF_SEED=" + strconv.Itoa(seed)}, timeout)
		r.Seconds = time.Since(t0).Seconds()
		if m := reStandinCases.FindStringSubmatch(txt); m != nil {
			r.Cases, _ = strconv.Atoi(m[1])
			r.Bound = m[3]
		}
		for _, m := range reStandinViol.FindAllStringSubmatch(txt, -1) {
			r.Violations = append(r.Violations, standinViolation{Input: m[1], Text: m[2], Output: m[0]})
		}
		if r.Cases == 0 && len(r.Violations) == 0 {
			// the stand-in did not run to completion: the function it executes no longer has the shape it was
			// written against (does not compile), or it did not terminate / crashed outside the harness
			tail := txt
			if len(tail) > 1500 {
				tail = tail[len(tail)-1500:]
			}
			what := "the bounded stand-in could not be run against the current code"
			if strings.Contains(txt, "test timed out") {
				what = "the function did not terminate within the time limit on some input of the bound"
			}
			r.Violations = append(r.Violations, standinViolation{Input: "", Text: what + fmt.Sprintf(" (%v)", rerr), Output: tail})
		}
		if memoOn {
			standinMemo[s.Name+"|"+tier] = r
		}
		res = append(res, r)
	}
	return res
}

// replayOnRealCode turns the solver's counterexample for a failed postcondition into a Go test that calls the real
// function with the model's arguments and evaluates the violated clause on what the function returns.  It is built
// for the functions whose counterexample is a complete input: top-level functions whose parameters and results are
// strings, booleans and integers (also named ones of the function's package) and whose clause speaks only about
// them with operators the Go translation below covers.  For every other obligation (heap, ghosts, uninterpreted
// spec functions, methods) there is no input to run: the caller reports no-failing-input-found.
func replayOnRealCode(w *World, repo, verif, prop string, o *Obligation) (string, bool) {
	// Results of callees under assumed contracts are arbitrary in the solver's model, so its first counterexample need
	// not be a failing input of the real function: further models are requested (the earlier argument vectors
	// blocked) until one replays or six have been tried.
	mv := o.ModelVal
	var report strings.Builder
	var blocks []string
	for attempt := 1; attempt <= 6; attempt++ {
		out, ok, vec := replayOnce(w, repo, verif, prop, o, mv, attempt)
		if out == "" {
			return report.String(), false
		}
		fmt.Fprintf(&report, "attempt %d:\n%s\n", attempt, out)
		if ok {
			return report.String(), true
		}
		if len(vec) == 0 {
			break
		}
		blocks = append(blocks, "(assert (not (and "+strings.Join(vec, " ")+")))")
		script := o.script(w, false, true)
		script = strings.Replace(script, "(check-sat)", strings.Join(blocks, "\n")+"\n(check-sat)", 1)
		out2 := outDir
		if out2 == "" {
			out2 = verif
		}
		f := filepath.Join(out2, "work", prop, "replay_next_model.smt2")
		os.MkdirAll(filepath.Dir(f), 0o755)
		if os.WriteFile(f, []byte(script), 0o644) != nil {
			break
		}
		st, txt, _ := runSolver(solvers[0], f, 10, attempt)
		if st != "sat" {
			fmt.Fprintf(&report, "no further model (%s)\n", st)
			break
		}
		mv = parseModel(txt)
	}
	return report.String(), false
}

// replayOnce builds and runs the test for one model; vec are SMT equalities fixing the argument vector it used.
func replayOnce(w *World, repo, verif, prop string, o *Obligation, modelVal map[string]string, attempt int) (string, bool, []string) {
	if o.vc == nil || o.vc.c == nil || o.vc.fn == nil || o.Kind != "post" {
		return "", false, nil
	}
	fn, c := o.vc.fn, o.vc.c
	if fn.Parent() != nil || fn.Pkg == nil || !strings.HasPrefix(fn.Pkg.Pkg.Path(), repoMod) {
		return "", false, nil
	}
	recv := fn.Signature.Recv() // a method is replayed when its receiver is a (non-pointer) basic named type
	var clause Expr
	for i, e := range c.Ensures {
		label := e.Label
		if label == "" {
			label = fmt.Sprintf("e%d", i)
		}
		if strings.HasSuffix(o.Name, "#post:"+label) {
			clause = e.E
		}
	}
	if clause == nil {
		return "", false, nil
	}
	pkg := fn.Pkg.Pkg
	basic := func(t types.Type) (string, bool) {
		b, ok := t.Underlying().(*types.Basic)
		if !ok || b.Info()&(types.IsString|types.IsBoolean|types.IsInteger) == 0 {
			return "", false
		}
		if n, isNamed := t.(*types.Named); isNamed {
			if n.Obj().Pkg() != pkg {
				return "", false
			}
			return n.Obj().Name(), true
		}
		return b.Name(), true
	}
	names := map[string]string{} // spec name -> Go variable
	var vec []string
	var decl, args, show []string
	var pvars []*types.Var
	if recv != nil {
		pvars = append(pvars, recv)
	}
	for i := 0; i < fn.Signature.Params().Len(); i++ {
		pvars = append(pvars, fn.Signature.Params().At(i))
	}
	ps := types.NewTuple(pvars...)
	if ps.Len() != len(c.Params) || fn.Signature.Variadic() {
		return "", false, nil
	}
	for i := 0; i < ps.Len(); i++ {
		var val string
		found := false
		for k, v := range modelVal {
			if strings.HasPrefix(k, "p_"+c.Params[i]+"_") {
				val, found = v, true
				vec = append(vec, "(= "+k+" "+v+")")
			}
		}
		tn, ok := basic(ps.At(i).Type())
		var lit string
		if ok {
			lit, ok = goLiteral(val, found, ps.At(i).Type())
		} else if st, isStruct := ps.At(i).Type().Underlying().(*types.Struct); isStruct {
			// a struct of the function's package whose fields are all basic: (mk_S_… v0 v1 …) in the model
			n, isNamed := ps.At(i).Type().(*types.Named)
			if !isNamed || n.Obj().Pkg() != pkg {
				return "", false, nil
			}
			tn = n.Obj().Name()
			parts := splitSExpr(val)
			if found && len(parts) != st.NumFields()+1 {
				return "", false, nil
			}
			var fields []string
			ok = true
			for fi := 0; fi < st.NumFields(); fi++ {
				if _, isBasic := basic(st.Field(fi).Type()); !isBasic {
					return "", false, nil
				}
				fv, ffound := "", false
				if found {
					fv, ffound = parts[fi+1], true
				}
				fl, fok := goLiteral(fv, ffound, st.Field(fi).Type())
				ok = ok && fok
				fields = append(fields, st.Field(fi).Name()+": "+fl)
			}
			lit = tn + "{" + strings.Join(fields, ", ") + "}"
		} else {
			return "", false, nil
		}
		if !ok {
			return "the model's value for " + c.Params[i] + " cannot be written as a Go literal: " + val, false, nil
		}
		g := fmt.Sprintf("a%d", i)
		names[c.Params[i]] = g
		decl = append(decl, fmt.Sprintf("\tvar %s %s = %s", g, tn, lit))
		args = append(args, g)
		show = append(show, fmt.Sprintf("%s=%%#v", c.Params[i]))
	}
	rs := fn.Signature.Results()
	if rs.Len() != len(c.Results) {
		return "", false, nil
	}
	var res []string
	for i := 0; i < rs.Len(); i++ {
		if _, ok := basic(rs.At(i).Type()); !ok {
			if !types.Identical(rs.At(i).Type(), types.Universe.Lookup("error").Type()) {
				return "", false, nil
			}
		}
		g := fmt.Sprintf("r%d", i)
		names[c.Results[i]] = g
		res = append(res, g)
	}
	goClause, ok := specToGo(clause, names)
	if !ok {
		return "", false, nil
	}
	var b strings.Builder
	fmt.Fprintf(&b, "package %s\n\n// Generated by govc: replay of the counterexample for %s.\n\nimport (\n\t\"fmt\"\n\t\"strconv\"\n\t\"strings\"\n\t\"testing\"\n)\n\n", pkg.Name(), o.Name)
	b.WriteString("var _ = strconv.Itoa\nvar _ = strings.HasPrefix\n\n")
	b.WriteString("func vIte[T any](c bool, a, b T) T {\n\tif c {\n\t\treturn a\n\t}\n\treturn b\n}\n\n")
	b.WriteString("// vSubstr is SMT-LIB str.substr: empty unless 0 <= i < len(s) and n > 0, clipped at the end\nfunc vSubstr(s string, i, n int) string {\n\tif i < 0 || i >= len(s) || n <= 0 {\n\t\treturn \"\"\n\t}\n\tif i+n > len(s) {\n\t\tn = len(s) - i\n\t}\n\treturn s[i : i+n]\n}\n\n")
	b.WriteString("func TestVerifReplayCounterexample(t *testing.T) {\n")
	b.WriteString(strings.Join(decl, "\n") + "\n")
	call := fn.Name() + "(" + strings.Join(args, ", ") + ")"
	if recv != nil {
		if _, isBasic := basic(recv.Type()); !isBasic {
			return "", false, nil
		}
		call = args[0] + "." + fn.Name() + "(" + strings.Join(args[1:], ", ") + ")"
	}
	if len(res) > 0 {
		fmt.Fprintf(&b, "\t%s := %s\n", strings.Join(res, ", "), call)
		for _, r := range res {
			fmt.Fprintf(&b, "\t_ = %s\n", r)
		}
	} else {
		fmt.Fprintf(&b, "\t%s\n", call)
	}
	fmt.Fprintf(&b, "\tholds := %s\n", goClause)
	showFmt := strings.ReplaceAll(strings.Join(show, " "), "%%", "%")
	argList := strings.Join(args, ", ")
	if argList != "" {
		argList += ", "
	}
	b.WriteString("\tfmt.Printf(\"VREPLAY holds=%v " + showFmt + " results=%#v\\n\", holds, " + argList + "[]any{" + strings.Join(res, ", ") + "})\n}\n")
	out := outDir
	if out == "" {
		out = verif
	}
	dir := filepath.Join(out, "replays", prop)
	os.MkdirAll(dir, 0o755)
	testFile := filepath.Join(dir, fmt.Sprintf("%s_replay%d_test.go", trunc(mangle(o.Name), 120), attempt))
	if err := os.WriteFile(testFile, []byte(b.String()), 0o644); err != nil {
		return "", false, nil
	}
	rel, _ := filepath.Rel(repoMod, pkg.Path())
	txt, _ := runOverlayTest(repo, rel, testFile, "zz_verif_replay_test.go", "TestVerifReplayCounterexample", filepath.Join(out, "work", prop), nil, 60)
	report := "generated test: " + testFile + "\n"
	for _, l := range strings.Split(txt, "\n") {
		if strings.HasPrefix(l, "VREPLAY ") {
			report += l + "\n"
			if strings.HasPrefix(l, "VREPLAY holds=false") {
				return report + "the real function violates the clause on this input", true, vec
			}
			return report + "the clause holds on the real function for this input (this model is an artefact of the assumed contracts of callees)", false, vec
		}
	}
	return report + "the generated test did not run to completion:\n" + trunc(txt, 1500), false, vec
}

// goLiteral writes a model value of a basic type as a Go literal.
func goLiteral(v string, found bool, t types.Type) (string, bool) {
	b := t.Underlying().(*types.Basic)
	switch {
	case b.Info()&types.IsString != 0:
		if !found {
			return `""`, true
		}
		if len(v) < 2 || v[0] != '"' {
			return "", false
		}
		body := strings.ReplaceAll(v[1:len(v)-1], `""`, `"`)
		// SMT-LIB escapes: \u{X} / \uXXXX
		var sb strings.Builder
		for i := 0; i < len(body); {
			if strings.HasPrefix(body[i:], "\\u{") {
				j := strings.Index(body[i:], "}")
				if j < 0 {
					return "", false
				}
				n, err := strconv.ParseUint(body[i+3:i+j], 16, 32)
				if err != nil || n > 255 {
					return "", false
				}
				sb.WriteByte(byte(n))
				i += j + 1
				continue
			}
			sb.WriteByte(body[i])
			i++
		}
		return strconv.Quote(sb.String()), true
	case b.Info()&types.IsBoolean != 0:
		if !found {
			return "false", true
		}
		return v, v == "true" || v == "false"
	default:
		if !found {
			return "0", true
		}
		v = strings.TrimSpace(v)
		neg := false
		if strings.HasPrefix(v, "(-") {
			neg = true
			v = strings.TrimSpace(strings.TrimSuffix(strings.TrimPrefix(v, "(-"), ")"))
		}
		n, err := strconv.ParseInt(v, 10, 64)
		if err != nil {
			return "", false
		}
		if neg {
			n = -n
		}
		return strconv.FormatInt(n, 10), true
	}
}

// specToGo translates a clause over basic values into a Go boolean expression; ok is false for anything else.
func specToGo(e Expr, names map[string]string) (string, bool) {
	switch x := e.(type) {
	case *EInt:
		return x.V, true
	case *EStr:
		return strconv.Quote(x.V), true
	case *EBool:
		return fmt.Sprint(x.V), true
	case *ENil:
		return "nil", true
	case *EIdent:
		if g, ok := names[x.Name]; ok {
			return g, true
		}
		if x.Name != "" && unicode.IsUpper(rune(x.Name[0])) {
			return x.Name, true // a constant of the package
		}
		return "", false
	case *ESel:
		a, ok := specToGo(x.X, names)
		return a + "." + x.F, ok
	case *EOld:
		return specToGo(x.X, names) // parameters are passed by value
	case *EUn:
		a, ok := specToGo(x.X, names)
		return "(" + x.Op + a + ")", ok && (x.Op == "!" || x.Op == "-")
	case *EIte:
		c, ok1 := specToGo(x.C, names)
		a, ok2 := specToGo(x.A, names)
		b, ok3 := specToGo(x.B, names)
		return "vIte(" + c + ", " + a + ", " + b + ")", ok1 && ok2 && ok3
	case *EBin:
		a, ok1 := specToGo(x.X, names)
		b, ok2 := specToGo(x.Y, names)
		if !ok1 || !ok2 {
			return "", false
		}
		switch x.Op {
		case "==>":
			return "(!(" + a + ") || (" + b + "))", true
		case "<==>":
			return "((" + a + ") == (" + b + "))", true
		case "&&", "||", "==", "!=", "<", "<=", ">", ">=", "+", "-", "*":
			return "(" + a + " " + x.Op + " " + b + ")", true
		}
		return "", false
	case *EIdx:
		a, ok1 := specToGo(x.X, names)
		i, ok2 := specToGo(x.I, names)
		return "int(" + a + "[" + i + "])", ok1 && ok2
	case *ECall:
		var as []string
		for _, a := range x.Args {
			g, ok := specToGo(a, names)
			if !ok {
				return "", false
			}
			as = append(as, g)
		}
		switch {
		case x.F == "len" && len(as) == 1:
			return "len(" + as[0] + ")", true
		case x.F == "substr" && len(as) == 3:
			return "vSubstr(" + strings.Join(as, ", ") + ")", true
		case x.F == "hasPrefix" && len(as) == 2:
			return "strings.HasPrefix(" + as[0] + ", " + as[1] + ")", true
		case x.F == "hasSuffix" && len(as) == 2:
			return "strings.HasSuffix(" + as[0] + ", " + as[1] + ")", true
		case x.F == "contains" && len(as) == 2:
			return "strings.Contains(" + as[0] + ", " + as[1] + ")", true
		case x.F == "itoa" && len(as) == 1:
			return "strconv.Itoa(" + as[0] + ")", true
		case x.F == "replaceAll" && len(as) == 3:
			return "strings.ReplaceAll(" + strings.Join(as, ", ") + ")", true
		}
		return "", false
	}
	return "", false
}

func runSelftest(repo, verif string, a []string) int { return 2 }

// splitSExpr splits "(f a b c)" into [f a b c] at the top level (string literals and nested lists kept whole).
func splitSExpr(v string) []string {
	v = strings.TrimSpace(v)
	if len(v) < 2 || v[0] != '(' {
		return []string{v}
	}
	v = v[1 : len(v)-1]
	var out []string
	depth, inStr, start := 0, false, -1
	for i := 0; i < len(v); i++ {
		ch := v[i]
		if inStr {
			if ch == '"' {
				if i+1 < len(v) && v[i+1] == '"' {
					i++
					continue
				}
				inStr = false
			}
			continue
		}
		switch {
		case ch == '"':
			if start < 0 {
				start = i
			}
			inStr = true
		case ch == '(':
			if start < 0 {
				start = i
			}
			depth++
		case ch == ')':
			depth--
		case ch == ' ' || ch == '\n' || ch == '\t':
			if depth == 0 && start >= 0 {
				out = append(out, v[start:i])
				start = -1
			}
		default:
			if start < 0 {
				start = i
			}
		}
	}
	if start >= 0 {
		out = append(out, v[start:])
	}
	return out
}
