package main

// Bounded stand-ins: the real compiled function is executed on every input within a stated bound from an
// in-package test injected with `go test -overlay` (nothing is written to /repo).  They are reported under
// bounded_standins, never counted as obligations/discharged (DESIGN §2.12).

import (
	"encoding/json"
	"fmt"
	"os"
	"os/exec"
	"path/filepath"
	"regexp"
	"strconv"
	"strings"
	"time"
)

type standinViolation struct {
	Input, Text, Output string
}

type standinResult struct {
	Name, Function, Bound string
	Cases                 int
	Violations            []standinViolation
	Seconds               float64
	Broken                string
}

type standinSpec struct {
	Name     string   `json:"name"`
	Props    []string `json:"props"`
	Pkg      string   `json:"pkg"`
	File     string   `json:"file"`
	Test     string   `json:"test"`
	Function string   `json:"function"`
	Oracle   string   `json:"oracle"`
}

var reStandinCases = regexp.MustCompile(`(?m)^VSTANDIN cases=(\d+) violations=(\d+) bound=(.*)$`)
var reStandinViol = regexp.MustCompile(`(?m)^VSTANDIN-VIOLATION input=(.*?) :: (.*)$`)

func goEnv() []string {
	return append(os.Environ(), "GOFLAGS=-mod=mod", "GOPROXY=off", "GOSUMDB=off", "GOTOOLCHAIN=local")
}

// runOverlayTest injects file as <repo>/<pkg>/<name> and runs one test function of that package.
func runOverlayTest(repo, pkg, srcFile, asName, test, workDir string, extraEnv []string, timeoutS int) (string, error) {
	os.MkdirAll(workDir, 0o755)
	ov := filepath.Join(workDir, "overlay_"+mangle(asName)+".json")
	abs, _ := filepath.Abs(srcFile)
	b, _ := json.Marshal(map[string]any{"Replace": map[string]string{filepath.Join(repo, pkg, asName): abs}})
	if err := os.WriteFile(ov, b, 0o644); err != nil {
		return "", err
	}
	cmd := exec.Command("go", "test", "-overlay", ov, "-vet=off", "-count=1", fmt.Sprintf("-timeout=%ds", timeoutS), "-run", "^"+test+"$", "-v", "./"+pkg)
	cmd.Dir = repo
	cmd.Env = append(goEnv(), extraEnv...)
	out, err := cmd.CombinedOutput()
	return string(out), err
}

func runStandins(w *World, repo, verif, prop, tier string, seed int) []standinResult {
	b, err := os.ReadFile(filepath.Join(verif, "standin", "registry.json"))
	if err != nil {
		return nil
	}
	var specs []standinSpec
	if err := json.Unmarshal(b, &specs); err != nil {
		return []standinResult{{Name: "standin:registry", Broken: err.Error()}}
	}
	out := outDir
	if out == "" {
		out = verif
	}
	var res []standinResult
	for _, s := range specs {
		if !hasProp(s.Props, prop) {
			continue
		}
		t0 := time.Now()
		r := standinResult{Name: s.Name, Function: s.Function}
		timeout := 300
		if tier == "thorough" {
			timeout = 1800
		}
		txt, rerr := runOverlayTest(repo, s.Pkg, filepath.Join(verif, "standin", s.File), "zz_verif_standin_test.go", s.Test,
			filepath.Join(out, "work", prop), []string{"VERIF_TIER=" + tier, "VERIF_SEED=" + strconv.Itoa(seed)}, timeout)
		r.Seconds = time.Since(t0).Seconds()
		if m := reStandinCases.FindStringSubmatch(txt); m != nil {
			r.Cases, _ = strconv.Atoi(m[1])
			r.Bound = m[3]
		}
		for _, m := range reStandinViol.FindAllStringSubmatch(txt, -1) {
			r.Violations = append(r.Violations, standinViolation{Input: m[1], Text: m[2], Output: m[0]})
		}
		if r.Cases == 0 && len(r.Violations) == 0 {
			// the stand-in did not run to completion: the function it executes no longer has the shape it was
			// written against (does not compile), or it did not terminate / crashed outside the harness
			tail := txt
			if len(tail) > 1500 {
				tail = tail[len(tail)-1500:]
			}
			what := "the bounded stand-in could not be run against the current code"
			if strings.Contains(txt, "test timed out") {
				what = "the function did not terminate within the time limit on some input of the bound"
			}
			r.Violations = append(r.Violations, standinViolation{Input: "", Text: what + fmt.Sprintf(" (%v)", rerr), Output: tail})
		}
		res = append(res, r)
	}
	return res
}

func replayOnRealCode(w *World, repo, verif, prop string, o *Obligation) (string, bool) {
	return "", false
}

func runSelftest(repo, verif string, a []string) int { return 2 }
