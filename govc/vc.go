package main

// Verification-condition generation: SSA of the real function -> passive guarded form -> obligations.

import (
	"fmt"
	"go/constant"
	"go/token"
	"go/types"
	"os"
	"runtime/debug"
	"sort"
	"strconv"
	"strings"

	"golang.org/x/tools/go/ssa"
)

// ---------- symbolic values ----------

const (
	plField = iota
	plCell
	plElem
	plGlobal
)

type place struct {
	kind  int
	root  string     // plField: Ref of the root object; plCell: the pointer
	rootT types.Type // plField: struct type of the root object
	path  []int      // field path below root / element / global value
	base  string     // plElem
	idx   string     // plElem
	elemT types.Type // plElem: element type; plCell: pointee type; plGlobal: variable type
	typ   types.Type // type of the addressed location
	glob  *ssa.Global
}

type closInfo struct {
	fn       *ssa.Function
	bindings []*sym
}

type sym struct {
	t     string
	typ   types.Type
	pl    *place
	tuple []*sym
	clos  *closInfo
	bound *boundInfo
}

type boundInfo struct {
	fn   *ssa.Function
	recv *sym
}

type state struct {
	h        map[string]string
	epoch    int
	havocked string    // SMT Bool: a havoc-everything happened on the path to here
	param    *[]string // non-nil: heap reads become parameters of a recursive spec function
	// a state that joins paths of different epochs resolves heaps it has not materialised yet through its parents
	mconds []string
	msts   []*state
}

func (s *state) clone() *state {
	n := &state{h: make(map[string]string, len(s.h)), epoch: s.epoch, havocked: s.havocked, mconds: s.mconds, msts: s.msts}
	for k, v := range s.h {
		n.h[k] = v
	}
	return n
}

// adopt makes s the same state as o (used where a callee's or a merged state replaces the current one).
func (s *state) adopt(o *state) {
	s.h, s.epoch, s.havocked, s.mconds, s.msts = o.h, o.epoch, o.havocked, o.mconds, o.msts
}

type Obligation struct {
	Name   string
	Kind   string
	Func   string
	Props  []string
	Prefix int    // number of commands of vc.cmds that precede the goal
	Goal   string // SMT Bool term that must be valid under the prefix
	Pos    string
	Clause string
	vc     *FnVC
	// results
	Status   string // unsat (proved) | sat | unknown | timeout | error
	Solver   string
	Seconds  float64
	Model    string
	Output   string
	Cover    string
	Trivial  bool
	ModelVal map[string]string
}

type loopInfo struct {
	header   *ssa.BasicBlock
	ordinal  int
	blocks   map[*ssa.BasicBlock]bool
	modKeys  map[string]bool
	modAll   bool
	headSt   *state // state right after havoc at the header (for loop-frame obligations)
	preSt    *state // merged state on entry, before havoc
	phiSyms  map[*ssa.Phi]*sym
	rangeIdx *ssa.Phi
	backs    []backRec
	closed   bool
	entryEnv *env // spec environment on entry (for entry(e) in this loop's clauses)
}

type backRec struct {
	from *ssa.BasicBlock
	cond string
	st   *state
}

type deferRec struct {
	instr *ssa.Defer
	armed string
	args  []*sym
	fnsym *sym
}

type FnVC struct {
	refining   bool        // generating an interface-refinement check (see refine.go)
	skipped    []string    // interface clauses not compared (they speak about observation ghosts)
	insliceUse int         // 0 unknown, 1 yes, -1 no (see usesInslice)
	frameLoop  *loopInfo   // set while the frame of a loop with its own modifies clause is generated
	splice     *loopSplice // loops of the contract that now live in helpers (loops.go); nil when the loops are where they were
	w          *World
	fn         *ssa.Function
	c          *Contract
	cmds       []string
	n          int
	obls       []*Obligation
	declared   map[string]bool
	fnName     string // package-relative name for obligation naming
	pkgPath    string
	mode       string // "verify"
	unsup      []string
	callOrd    map[string]int
	sitesHit   map[*Clause]int
	callsSeen  map[string]int
	depth      int
	entrySt    *state
	safety     bool
	relyDef    *SpecDef
	obNames    map[string]int
	recs       map[string]*recInfo
}

type recInfo struct {
	name string
	keys []string
	rty  types.Type
	done bool
}

type frame struct {
	vc                *FnVC
	fn                *ssa.Function
	vals              map[ssa.Value]*sym
	reach             map[*ssa.BasicBlock]string
	out               map[*ssa.BasicBlock]*state
	edge              map[[2]int]string
	loops             map[*ssa.BasicBlock]*loopInfo
	defers            []*deferRec
	rets              []retRec
	names             map[string]*sym // source-level names (params, named results, free vars)
	c                 *Contract       // contract under verification (top frame only)
	inlined           bool
	borrow            bool // a helper executed in place whose loops stand for loops of the function under contract (loops.go)
	borrowNext        bool // the next helper executed in place borrows (set by applyCall for inlineCall)
	borrowBase        int
	curCall           ssa.Instruction
	prefix            string
	oldSt             *state
	rangeSt           map[*ssa.Range]*rangeRec
	callPos           map[string][]token.Pos
	curOrd            int
	curBlock          *ssa.BasicBlock
	curIdx            int
	lastFuncSetResult *sym
}

type rangeRec struct {
	m       *sym
	visited string // current visited-set term (Array K Bool)
	phiLike bool
}

type retRec struct {
	blk   *ssa.BasicBlock
	pos   token.Pos
	reach string
	vals  []*sym
	st    *state
}

// ---------- small SMT helpers ----------

func and(xs ...string) string {
	var ys []string
	for _, x := range xs {
		if x == "true" || x == "" {
			continue
		}
		if x == "false" {
			return "false"
		}
		ys = append(ys, x)
	}
	switch len(ys) {
	case 0:
		return "true"
	case 1:
		return ys[0]
	}
	return "(and " + strings.Join(ys, " ") + ")"
}

func or(xs ...string) string {
	var ys []string
	for _, x := range xs {
		if x == "false" || x == "" {
			continue
		}
		if x == "true" {
			return "true"
		}
		ys = append(ys, x)
	}
	switch len(ys) {
	case 0:
		return "false"
	case 1:
		return ys[0]
	}
	return "(or " + strings.Join(ys, " ") + ")"
}

func not(x string) string {
	switch x {
	case "true":
		return "false"
	case "false":
		return "true"
	}
	if strings.HasPrefix(x, "(not ") && balanced(x[5:len(x)-1]) {
		return x[5 : len(x)-1]
	}
	return "(not " + x + ")"
}

func balanced(s string) bool {
	d := 0
	for i := 0; i < len(s); i++ {
		switch s[i] {
		case '(':
			d++
		case ')':
			d--
			if d < 0 {
				return false
			}
		case '"':
			i++
			for i < len(s) && s[i] != '"' {
				i++
			}
		}
	}
	return d == 0
}

func imp(a, b string) string {
	if a == "true" {
		return b
	}
	if a == "false" || b == "true" {
		return "true"
	}
	return "(=> " + a + " " + b + ")"
}

func ite(c, a, b string) string {
	if c == "true" {
		return a
	}
	if c == "false" {
		return b
	}
	if a == b {
		return a
	}
	return "(ite " + c + " " + a + " " + b + ")"
}

func eq(a, b string) string {
	if a == b {
		return "true"
	}
	return "(= " + a + " " + b + ")"
}

func smtInt(v int64) string {
	if v < 0 {
		return fmt.Sprintf("(- %d)", -v)
	}
	return fmt.Sprint(v)
}

func smtString(s string) string {
	var b strings.Builder
	b.WriteByte('"')
	for i := 0; i < len(s); i++ {
		c := s[i]
		switch {
		case c == '"':
			b.WriteString("\"\"")
		case c >= 32 && c < 127 && c != '\\':
			b.WriteByte(c)
		default:
			fmt.Fprintf(&b, "\\u{%x}", c)
		}
	}
	b.WriteByte('"')
	return b.String()
}

// ---------- FnVC basics ----------

func (vc *FnVC) emit(s string) { vc.cmds = append(vc.cmds, s) }

func (vc *FnVC) fresh(prefix, sort string) string {
	vc.n++
	name := fmt.Sprintf("%s_%d", mangle(prefix), vc.n)
	vc.emit(fmt.Sprintf("(declare-const %s %s)", name, sort))
	if sort == "(Array Ref Bool)" && strings.HasPrefix(prefix, "h_A") {
		vc.emit(fmt.Sprintf("(assert (not (select %s nil)))", name)) // nil is not an object
	}
	if sort == "Iface" {
		// the nil interface value is canonical
		vc.emit(fmt.Sprintf("(assert (=> (= (itag %s) 0) (= %s niliface)))", name, name))
	}
	return name
}

func isAtom(t string) bool {
	return !strings.ContainsAny(t, " (")
}

func (vc *FnVC) define(prefix, sort, term string) string {
	if isAtom(term) {
		return term
	}
	n := vc.fresh(prefix, sort)
	vc.emit(fmt.Sprintf("(assert (= %s %s))", n, term))
	return n
}

func (vc *FnVC) assume(guard, fact string) {
	f := imp(guard, fact)
	if f == "true" {
		return
	}
	vc.emit("(assert " + f + ")")
}

func (vc *FnVC) oblige(kind, label, guard, goal string, pos token.Pos, clause string, props []string) *Obligation {
	name := vc.fnName + "#" + kind
	if label != "" {
		name += ":" + label
	}
	if vc.obNames == nil {
		vc.obNames = map[string]int{}
	}
	vc.obNames[name]++
	if k := vc.obNames[name]; k > 1 {
		name = fmt.Sprintf("%s~%d", name, k)
	}
	if vc.c != nil {
		// an obligation counts for the properties named on its clause and for every property its function is
		// listed under: a property that rests on a function rests on all the function is proved to do
		props = unionProps(props, vc.c.Props)
	}
	o := &Obligation{Name: name, Kind: strings.SplitN(kind, "@", 2)[0], Func: vc.fnName, Props: props, Prefix: len(vc.cmds), Goal: imp(guard, goal),
		Pos: vc.w.pos(pos), Clause: clause, vc: vc}
	if o.Goal == "true" {
		o.Trivial = true
	}
	vc.obls = append(vc.obls, o)
	return o
}

func (vc *FnVC) heapSort(key string) string {
	s, ok := vc.w.heapSorts[key]
	if !ok {
		panic("heap key without sort: " + key)
	}
	return s
}

func (vc *FnVC) regHeap(key, sort string) string {
	if old, ok := vc.w.heapSorts[key]; ok && old != sort {
		panic(fmt.Sprintf("heap key %s: sort %s vs %s", key, old, sort))
	}
	vc.w.heapSorts[key] = sort
	return key
}

func (vc *FnVC) hget(st *state, key string) string {
	if st.param != nil {
		found := false
		for _, k := range *st.param {
			if k == key {
				found = true
			}
		}
		if !found {
			*st.param = append(*st.param, key)
		}
		return "hp_" + mangle(key)
	}
	if t, ok := st.h[key]; ok {
		return t
	}
	if st.msts != nil {
		// join of paths with different epochs: the value is whatever it was on the path taken
		terms := make([]string, len(st.msts))
		same := true
		for i, p := range st.msts {
			terms[i] = vc.hget(p, key)
			if terms[i] != terms[0] {
				same = false
			}
		}
		t := terms[0]
		if !same {
			t = terms[len(terms)-1]
			for i := len(terms) - 2; i >= 0; i-- {
				t = ite(st.mconds[i], terms[i], t)
			}
			t = vc.define("h_"+key, vc.heapSort(key), t)
		}
		st.h[key] = t
		return t
	}
	base := fmt.Sprintf("h_%s_e%d", mangle(key), st.epoch)
	if !vc.declared[base] {
		vc.declared[base] = true
		vc.emit(fmt.Sprintf("(declare-const %s %s)", base, vc.heapSort(key)))
		if key == "A" {
			vc.emit(fmt.Sprintf("(assert (not (select %s nil)))", base)) // nil is not an object
		}
		a := ""
		if key != "A" && strings.HasPrefix(vc.heapSort(key), "(Array Ref ") {
			a = fmt.Sprintf("h_A_e%d", st.epoch)
			if !vc.declared[a] {
				vc.declared[a] = true
				vc.emit(fmt.Sprintf("(declare-const %s (Array Ref Bool))", a))
				vc.emit(fmt.Sprintf("(assert (not (select %s nil)))", a))
			}
		}
		vc.heapWF(base, vc.heapSort(key), a)
		vc.globalInvAssume(key, base)
	}
	return base
}

// heapWF: type invariants of the values stored in an unconstrained heap array: slice headers are well-formed,
// and every pointer stored in the heap is nil or allocated (a is the allocation array the heap belongs to; ""
// when none is at hand).  In a real Go state no location holds a dangling pointer; without this an arbitrary
// initial heap could alias a slice's backing array with an object the function allocates later.
func (vc *FnVC) heapWF(name, sort, a string) {
	switch sort {
	case "Slice":
		vc.emit(fmt.Sprintf("(assert (and (>= (slen %s) 0) (>= (soff %s) 0) (>= (scap %s) (slen %s))))", name, name, name, name))
		return
	case "Iface":
		vc.emit(fmt.Sprintf("(assert (=> (= (itag %s) 0) (= %s niliface)))", name, name))
		return
	}
	if !strings.HasPrefix(sort, "(Array Ref ") {
		return
	}
	inner := sort[len("(Array Ref ") : len(sort)-1]
	sel := "(select " + name + " wr)"
	binders := "(wr Ref)"
	if strings.HasPrefix(inner, "(Array ") {
		// (Array K V): slice elements and map values
		rest := inner[len("(Array ") : len(inner)-1]
		var k, v string
		if strings.HasPrefix(rest, "(") {
			return
		}
		i := strings.Index(rest, " ")
		if i < 0 {
			return
		}
		k, v = rest[:i], rest[i+1:]
		if k == "Ref" {
			return
		}
		inner = v
		sel = "(select (select " + name + " wr) wk)"
		binders = "(wr Ref) (wk " + k + ")"
	}
	var facts []string
	switch inner {
	case "Slice":
		facts = append(facts, fmt.Sprintf("(>= (slen %s) 0) (>= (soff %s) 0) (>= (scap %s) (slen %s))", sel, sel, sel, sel))
		if a != "" {
			facts = append(facts, fmt.Sprintf("(or (= (sbase %s) nil) (select %s (sbase %s)))", sel, a, sel))
		}
	case "Ref":
		if a != "" {
			facts = append(facts, fmt.Sprintf("(or (= %s nil) (select %s %s))", sel, a, sel))
		}
	case "Iface":
		facts = append(facts, fmt.Sprintf("(=> (= (itag %s) 0) (= %s niliface))", sel, sel))
	}
	if len(facts) == 0 {
		return
	}
	vc.emit(fmt.Sprintf("(assert (forall (%s) (! (and %s) :pattern (%s))))", binders, strings.Join(facts, " "), sel))
}

func (vc *FnVC) freshHeap(prefix, sort, a string) string {
	n := vc.fresh(prefix, sort)
	vc.heapWF(n, sort, a)
	if strings.HasPrefix(prefix, "h_") {
		vc.globalInvAssume(prefix[2:], n)
	}
	return n
}

// globalInvAssume: global invariant `positive` (a counter that starts positive and is only ever incremented): holds
// for every value of the variable that this function did not compute itself (entry, after a call); every function
// under contract that may write the variable re-establishes it (implicit postcondition, see globalInvariants).
func (vc *FnVC) globalInvAssume(key, term string) {
	if !strings.HasPrefix(key, "V|") {
		return
	}
	if d := vc.w.defs["global:"+key[2:]]; d != nil && d.Result == "positive" {
		vc.w.assumedUsed["global "+key[2:]+" is positive initially (package initial value)"] = true
		vc.emit(fmt.Sprintf("(assert (> %s 0))", term))
	}
}

func (vc *FnVC) hset(st *state, key, term string) {
	st.h[key] = vc.define("h_"+key, vc.heapSort(key), term)
}

var epochCounter int

func (vc *FnVC) havocAll(st *state, reach string) {
	oldA := vc.hget(st, "A")
	epochCounter++
	st.h = map[string]string{}
	st.mconds, st.msts = nil, nil
	st.epoch = epochCounter
	st.havocked = or(st.havocked, reach)
	vc.allocGrows(oldA, vc.hget(st, "A"))
}

// allocGrows: allocation is monotone — whatever was allocated stays allocated.
func (vc *FnVC) allocGrows(oldA, newA string) {
	if oldA == newA {
		return
	}
	vc.emit(fmt.Sprintf("(assert (forall ((ar Ref)) (! (=> (select %s ar) (select %s ar)) :pattern ((select %s ar)))))", oldA, newA, newA))
}

// havocKey replaces a heap by a fresh one (allocation stays monotone).
func (vc *FnVC) havocKey(st *state, k string) {
	if k == "A" {
		oldA := vc.hget(st, "A")
		st.h[k] = vc.fresh("h_A", vc.heapSort(k))
		vc.allocGrows(oldA, st.h[k])
		return
	}
	st.h[k] = vc.freshHeap("h_"+k, vc.heapSort(k), vc.hget(st, "A"))
}

// ---------- heap keys ----------

func (vc *FnVC) fieldKey(rootT types.Type, path []int) string {
	var p []string
	for _, i := range path {
		p = append(p, strconv.Itoa(i))
	}
	return "F|" + vc.w.so.typeName(rootT) + "|" + strings.Join(p, ".")
}

func pathType(t types.Type, path []int) types.Type {
	for _, i := range path {
		st, ok := t.Underlying().(*types.Struct)
		if !ok {
			return nil
		}
		t = st.Field(i).Type()
	}
	return t
}

func (vc *FnVC) cellKey(t types.Type) string {
	k := "C|" + vc.w.so.typeName(t)
	return vc.regHeap(k, "(Array Ref "+vc.w.so.sortOf(t)+")")
}

func (vc *FnVC) elemKey(t types.Type) string {
	k := "E|" + vc.w.so.typeName(t)
	return vc.regHeap(k, "(Array Ref (Array Int "+vc.w.so.sortOf(t)+"))")
}

func (vc *FnVC) mapKeys(m *types.Map) (dom, val string) {
	ks, vs := vc.w.so.sortOf(m.Key()), vc.w.so.sortOf(m.Elem())
	n := vc.w.so.typeName(m.Key()) + "|" + vc.w.so.typeName(m.Elem())
	dom = vc.regHeap("MD|"+n, "(Array Ref (Array "+ks+" Bool))")
	val = vc.regHeap("MV|"+n, "(Array Ref (Array "+ks+" "+vs+"))")
	return
}

func (vc *FnVC) allocKey() string { return vc.regHeap("A", "(Array Ref Bool)") }

func (vc *FnVC) globalKey(g *ssa.Global) string {
	t := derefType(g.Type())
	return vc.regHeap("V|"+g.Pkg.Pkg.Path()+"."+g.Name(), vc.w.so.sortOf(t))
}

func (vc *FnVC) ghostKey(name string) (string, string, bool) {
	d := vc.w.defs[name]
	if d == nil || d.Kind != "ghost" {
		return "", "", false
	}
	so := vc.ghostSort(d)
	return vc.regHeap("G|"+name, so), so, true
}

func (vc *FnVC) ghostSort(d *SpecDef) string {
	t := d.Result
	if strings.HasPrefix(t, "map[") {
		j := strings.Index(t, "]")
		k, err1 := vc.w.lookupType(t[4:j], d.Pkg)
		v, err2 := vc.w.lookupType(t[j+1:], d.Pkg)
		if err1 != nil || err2 != nil {
			panic(fmt.Sprintf("ghost %s: bad type %s", d.Name, t))
		}
		return "(Array " + vc.w.so.sortOf(k) + " " + vc.w.so.sortOf(v) + ")"
	}
	ty, err := vc.w.lookupType(t, d.Pkg)
	if err != nil {
		panic(fmt.Sprintf("ghost %s: %v", d.Name, err))
	}
	return vc.w.so.sortOf(ty)
}

// leafPaths enumerates the leaf field paths below a struct type (transparent structs are flattened).
func (vc *FnVC) leafPaths(t types.Type, prefix []int, out *[][]int) {
	if transparentStruct(t) {
		st := t.Underlying().(*types.Struct)
		for i := 0; i < st.NumFields(); i++ {
			vc.leafPaths(st.Field(i).Type(), append(append([]int{}, prefix...), i), out)
		}
		return
	}
	*out = append(*out, append([]int{}, prefix...))
}

// ---------- places ----------

func (vc *FnVC) placeOfPointer(p *sym) *place {
	if p.pl != nil {
		return p.pl
	}
	t := derefType(p.typ)
	if t == nil {
		panic("placeOfPointer: not a pointer: " + p.typ.String())
	}
	if transparentStruct(t) {
		return &place{kind: plField, root: p.t, rootT: t, typ: t}
	}
	return &place{kind: plCell, root: p.t, elemT: t, typ: t}
}

func (pl *place) extend(i int) *place {
	st := pl.typ.Underlying().(*types.Struct)
	np := *pl
	np.path = append(append([]int{}, pl.path...), i)
	np.typ = st.Field(i).Type()
	return &np
}

func (vc *FnVC) accessPath(term string, t types.Type, path []int) string {
	for _, i := range path {
		term = "(" + vc.w.so.accessor(t, i) + " " + term + ")"
		t = t.Underlying().(*types.Struct).Field(i).Type()
	}
	return term
}

func (vc *FnVC) updatePath(old string, t types.Type, path []int, val string) string {
	if len(path) == 0 {
		return val
	}
	st := t.Underlying().(*types.Struct)
	parts := []string{vc.w.so.mk(t)}
	for i := 0; i < st.NumFields(); i++ {
		f := "(" + vc.w.so.accessor(t, i) + " " + old + ")"
		if i == path[0] {
			parts = append(parts, vc.updatePath(f, st.Field(i).Type(), path[1:], val))
		} else {
			parts = append(parts, f)
		}
	}
	return "(" + strings.Join(parts, " ") + ")"
}

func (vc *FnVC) readPlace(st *state, pl *place) string {
	switch pl.kind {
	case plField:
		if transparentStruct(pl.typ) {
			s := pl.typ.Underlying().(*types.Struct)
			if s.NumFields() == 0 {
				return vc.w.so.mk(pl.typ)
			}
			parts := []string{vc.w.so.mk(pl.typ)}
			for i := 0; i < s.NumFields(); i++ {
				parts = append(parts, vc.readPlace(st, pl.extend(i)))
			}
			return "(" + strings.Join(parts, " ") + ")"
		}
		key := vc.regHeap(vc.fieldKey(pl.rootT, pl.path), "(Array Ref "+vc.w.so.sortOf(pl.typ)+")")
		return "(select " + vc.hget(st, key) + " " + pl.root + ")"
	case plCell:
		return vc.accessPath("(select "+vc.hget(st, vc.cellKey(pl.elemT))+" "+pl.root+")", pl.elemT, pl.path)
	case plElem:
		v := "(select (select " + vc.hget(st, vc.elemKey(pl.elemT)) + " " + pl.base + ") " + pl.idx + ")"
		return vc.accessPath(v, pl.elemT, pl.path)
	case plGlobal:
		if !vc.w.mutGlobal[pl.glob] {
			return vc.accessPath(vc.constGlobal(pl.glob), pl.elemT, pl.path)
		}
		return vc.accessPath(vc.hget(st, vc.globalKey(pl.glob)), pl.elemT, pl.path)
	}
	panic("readPlace")
}

func (vc *FnVC) constGlobal(g *ssa.Global) string {
	name := "glob_" + mangle(g.Pkg.Pkg.Name()+"_"+g.Name())
	if !vc.declared[name] {
		vc.declared[name] = true
		t := derefType(g.Type())
		vc.emit(fmt.Sprintf("(declare-const %s %s)", name, vc.w.so.sortOf(t)))
		// sentinel errors initialised at package init are non-nil
		if d := vc.w.defs["global:"+g.Pkg.Pkg.Path()+"."+g.Name()]; d != nil {
			// assumed: the package initialiser gives this (never reassigned) variable a non-nil value
			vc.w.assumedUsed["global "+g.Pkg.Pkg.Path()+"."+g.Name()+" is non-nil"] = true
			switch vc.w.so.sortOf(t) {
			case "Iface":
				vc.emit(fmt.Sprintf("(assert (not (= (itag %s) 0)))", name))
			case "Ref":
				vc.emit(fmt.Sprintf("(assert (not (= %s nil)))", name))
			}
		}
		if types.Identical(t, types.Universe.Lookup("error").Type()) && (strings.HasPrefix(strings.ToLower(g.Name()), "err") || g.Name() == "EOF") {
			vc.emit(fmt.Sprintf("(assert (not (= (itag %s) 0)))", name))
		}
	}
	return name
}

func (vc *FnVC) writePlace(st *state, pl *place, val string) {
	switch pl.kind {
	case plField:
		if transparentStruct(pl.typ) {
			s := pl.typ.Underlying().(*types.Struct)
			v := vc.define("sv", vc.w.so.sortOf(pl.typ), val)
			for i := 0; i < s.NumFields(); i++ {
				vc.writePlace(st, pl.extend(i), "("+vc.w.so.accessor(pl.typ, i)+" "+v+")")
			}
			return
		}
		key := vc.regHeap(vc.fieldKey(pl.rootT, pl.path), "(Array Ref "+vc.w.so.sortOf(pl.typ)+")")
		vc.hset(st, key, "(store "+vc.hget(st, key)+" "+pl.root+" "+val+")")
	case plCell:
		key := vc.cellKey(pl.elemT)
		h := vc.hget(st, key)
		nv := vc.updatePath("(select "+h+" "+pl.root+")", pl.elemT, pl.path, val)
		vc.hset(st, key, "(store "+h+" "+pl.root+" "+nv+")")
	case plElem:
		key := vc.elemKey(pl.elemT)
		h := vc.hget(st, key)
		inner := "(select " + h + " " + pl.base + ")"
		nv := vc.updatePath("(select "+inner+" "+pl.idx+")", pl.elemT, pl.path, val)
		vc.hset(st, key, "(store "+h+" "+pl.base+" (store "+inner+" "+pl.idx+" "+nv+"))")
	case plGlobal:
		key := vc.globalKey(pl.glob)
		vc.w.mutGlobal[pl.glob] = true
		nv := vc.updatePath(vc.hget(st, key), pl.elemT, pl.path, val)
		vc.hset(st, key, nv)
	}
}

// keysOfPlace lists the heap keys a store to this place may touch.
func (vc *FnVC) keysOfPlace(pl *place) []string {
	switch pl.kind {
	case plField:
		var paths [][]int
		vc.leafPaths(pl.typ, pl.path, &paths)
		var out []string
		for _, p := range paths {
			lt := pathType(pl.rootT, p)
			out = append(out, vc.regHeap(vc.fieldKey(pl.rootT, p), "(Array Ref "+vc.w.so.sortOf(lt)+")"))
		}
		return out
	case plCell:
		return []string{vc.cellKey(pl.elemT)}
	case plElem:
		return []string{vc.elemKey(pl.elemT)}
	case plGlobal:
		return []string{vc.globalKey(pl.glob)}
	}
	return nil
}

// wf emits the type invariants of a freshly obtained value.
func (vc *FnVC) wf(guard, term string, t types.Type, st *state, depth int) {
	if isTimeTime(t) {
		// instants are counted from the zero time; instants before it are not modelled
		vc.assume(guard, "(>= "+term+" 0)")
		return
	}
	switch u := t.Underlying().(type) {
	case *types.Pointer:
		if st != nil && st.param == nil {
			vc.assume(guard, fmt.Sprintf("(or (= %s nil) (select %s %s))", term, vc.hget(st, "A"), term))
		}
	case *types.Slice:
		if st != nil && st.param == nil {
			vc.assume(guard, fmt.Sprintf("(or (= (sbase %s) nil) (select %s (sbase %s)))", term, vc.hget(st, "A"), term))
		}
		vc.assume(guard, fmt.Sprintf("(and (>= (slen %s) 0) (>= (soff %s) 0) (>= (scap %s) (slen %s)) (=> (= (sbase %s) nil) (= (scap %s) 0)))", term, term, term, term, term, term))
	case *types.Interface:
		// the nil interface value is canonical
		vc.assume(guard, fmt.Sprintf("(=> (= (itag %s) 0) (= %s niliface))", term, term))
	case *types.Basic:
		if u.Info()&types.IsUnsigned != 0 {
			vc.assume(guard, "(>= "+term+" 0)")
		}
	case *types.Struct:
		if depth < 2 && transparentStruct(t) {
			for i := 0; i < u.NumFields(); i++ {
				ft := u.Field(i).Type()
				switch ft.Underlying().(type) {
				case *types.Slice, *types.Struct, *types.Interface:
					vc.wf(guard, "("+vc.w.so.accessor(t, i)+" "+term+")", ft, st, depth+1)
				}
			}
		}
	}
}

// ---------- constants ----------

func (vc *FnVC) constSym(c *ssa.Const) *sym {
	t := c.Type()
	so := vc.w.so.sortOf(t)
	if c.Value == nil {
		return &sym{t: vc.w.so.zero(t), typ: t}
	}
	switch so {
	case "Bool":
		return &sym{t: fmt.Sprint(constant.BoolVal(c.Value)), typ: t}
	case "Int":
		if v, ok := constant.Int64Val(constant.ToInt(c.Value)); ok {
			return &sym{t: smtInt(v), typ: t}
		}
		if v, ok := constant.Uint64Val(constant.ToInt(c.Value)); ok {
			return &sym{t: fmt.Sprint(v), typ: t}
		}
		return &sym{t: vc.fresh("bigconst", "Int"), typ: t}
	case "String":
		return &sym{t: smtString(constant.StringVal(c.Value)), typ: t}
	case "Real":
		f, _ := constant.Float64Val(c.Value)
		s := strconv.FormatFloat(f, 'f', -1, 64)
		if !strings.Contains(s, ".") {
			s += ".0"
		}
		if strings.HasPrefix(s, "-") {
			s = "(- " + s[1:] + ")"
		}
		return &sym{t: s, typ: t}
	}
	return &sym{t: vc.fresh("const", so), typ: t}
}

// ---------- loops ----------

func (f *frame) findLoops() {
	fn := f.fn
	f.loops = map[*ssa.BasicBlock]*loopInfo{}
	var headers []*ssa.BasicBlock
	for _, b := range fn.Blocks {
		for _, s := range b.Succs {
			if s.Dominates(b) { // back edge b -> s
				li := f.loops[s]
				if li == nil {
					li = &loopInfo{header: s, blocks: map[*ssa.BasicBlock]bool{s: true}, modKeys: map[string]bool{}}
					f.loops[s] = li
					headers = append(headers, s)
				}
				// natural loop: blocks that reach b without passing through s
				var stack []*ssa.BasicBlock
				if !li.blocks[b] {
					li.blocks[b] = true
					stack = append(stack, b)
				}
				for len(stack) > 0 {
					x := stack[len(stack)-1]
					stack = stack[:len(stack)-1]
					for _, p := range x.Preds {
						if !li.blocks[p] {
							li.blocks[p] = true
							stack = append(stack, p)
						}
					}
				}
			}
		}
	}
	sort.Slice(headers, func(i, j int) bool { return headers[i].Index < headers[j].Index })
	for i, h := range headers {
		f.loops[h].ordinal = i
		if sp := f.vc.splice; sp != nil && fn == f.vc.fn {
			if k, ok := sp.topOrd[h]; ok {
				f.loops[h].ordinal = k
			}
		}
	}
}

func isBackEdge(from, to *ssa.BasicBlock) bool { return to.Dominates(from) }

// order: reverse postorder over forward edges.
func forwardOrder(fn *ssa.Function) []*ssa.BasicBlock {
	seen := map[*ssa.BasicBlock]bool{}
	var post []*ssa.BasicBlock
	var dfs func(b *ssa.BasicBlock)
	dfs = func(b *ssa.BasicBlock) {
		seen[b] = true
		for _, s := range b.Succs {
			if !seen[s] && !isBackEdge(b, s) {
				dfs(s)
			}
		}
		post = append(post, b)
	}
	if len(fn.Blocks) > 0 {
		dfs(fn.Blocks[0])
	}
	for i, j := 0, len(post)-1; i < j; i, j = i+1, j-1 {
		post[i], post[j] = post[j], post[i]
	}
	return post
}

// ---------- running a function body ----------

func (w *World) newVC(fn *ssa.Function, c *Contract) *FnVC {
	pkgPath := ""
	if fn != nil && fn.Pkg != nil {
		pkgPath = fn.Pkg.Pkg.Path()
	} else if c != nil {
		pkgPath = c.Pkg
	}
	name := ""
	if fn != nil {
		name = relName(nameOf(fn), pkgPath)
		short := strings.TrimPrefix(strings.TrimPrefix(pkgPath, repoMod+"/"), "internal/")
		name = short + "." + name
	}
	vc := &FnVC{w: w, fn: fn, c: c, declared: map[string]bool{}, fnName: name, pkgPath: pkgPath, callOrd: map[string]int{}, sitesHit: map[*Clause]int{}, callsSeen: map[string]int{}}
	return vc
}

func (vc *FnVC) newFrame(fn *ssa.Function) *frame {
	f := &frame{vc: vc, fn: fn, vals: map[ssa.Value]*sym{}, reach: map[*ssa.BasicBlock]string{}, out: map[*ssa.BasicBlock]*state{},
		edge: map[[2]int]string{}, names: map[string]*sym{}, rangeSt: map[*ssa.Range]*rangeRec{}}
	f.findLoops()
	return f
}

func (vc *FnVC) unsupported(format string, a ...any) {
	vc.unsup = append(vc.unsup, fmt.Sprintf(format, a...))
}

// verifyFunction builds all obligations of one function against its contract.
func (w *World) verifyFunction(fn *ssa.Function, c *Contract) (vc *FnVC, err error) {
	vc = w.newVC(fn, c)
	defer func() {
		if r := recover(); r != nil {
			if e, ok := r.(genError); ok {
				err = fmt.Errorf("%s: %s", vc.fnName, string(e))
				return
			}
			panic(r)
		}
	}()
	vc.safety = c.Safety
	if c.Variant != "" {
		vc.fnName += "@" + c.Variant
	}
	if c.Interf != "" {
		d := w.defs[c.Interf]
		if d == nil || d.Kind != "pred" || !d.TwoState {
			return nil, fmt.Errorf("%s: interference %s is not a twostate pred", vc.fnName, c.Interf)
		}
		vc.relyDef = d
	}
	if len(fn.Blocks) == 0 {
		return nil, fmt.Errorf("%s: no body", vc.fnName)
	}
	vc.planLoopSplice()
	f := vc.newFrame(fn)
	f.c = c
	topFrames[vc] = f
	st := &state{h: map[string]string{}, epoch: 0, havocked: "false"}
	// parameters
	names := c.Params
	if len(names) != len(fn.Params) {
		return nil, fmt.Errorf("%s: contract names %d parameters, function has %d", vc.fnName, len(names), len(fn.Params))
	}
	for i, p := range fn.Params {
		s := &sym{t: vc.fresh("p_"+names[i], w.so.sortOf(p.Type())), typ: p.Type()}
		f.vals[p] = s
		f.names[names[i]] = s
		vc.wf("true", s.t, p.Type(), st, 0)
		if _, isPtr := p.Type().Underlying().(*types.Pointer); isPtr && !c.Nullable[names[i]] {
			vc.assume("true", not(eq(s.t, "nil")))
		}
	}
	for _, fv := range fn.FreeVars {
		s := &sym{t: vc.fresh("fv_"+fv.Name(), w.so.sortOf(fv.Type())), typ: fv.Type()}
		f.vals[fv] = s
		f.names["&"+fv.Name()] = s
		if _, isPtr := fv.Type().Underlying().(*types.Pointer); isPtr {
			vc.assume("true", not(eq(s.t, "nil")))
		}
	}
	entry := st.clone()
	vc.entrySt = entry
	f.oldSt = entry
	// requires
	env := f.env(st, entry)
	for _, r := range c.Requires {
		t := env.boolExpr(r.E)
		vc.assume("true", t)
	}
	f.run(st, "true")
	// exit
	exitReach, results, exitSt := f.mergeReturns()
	if exitSt != nil {
		if len(c.Results) > 0 && len(c.Results) != len(results) {
			return nil, fmt.Errorf("%s: contract names %d results, function has %d", vc.fnName, len(c.Results), len(results))
		}
		// Postconditions are checked per return statement, on the state of that path, and the per-path implications
		// are conjoined into one obligation: a heap joined from several paths (ite over arrays) under quantified
		// postconditions of callees made goals hard and seed-dependent that are immediate on each path alone.
		mkView := func(reach string, st0 *state, vals []*sym, blk *ssa.BasicBlock) postView {
			pst := st0
			if !declaresAlloc(c) {
				// a function that does not declare allocation may only speak about objects that existed at entry:
				// allocated(x) in its postconditions refers to the entry allocation (sound to apply at callers whose
				// allocation state is left unchanged by the call)
				pst = st0.clone()
				pst.h["A"] = vc.hget(entry, "A")
			}
			e := f.env(pst, entry)
			for i, rn := range c.Results {
				if i < len(vals) {
					e.vars[rn] = vals[i]
				}
			}
			if len(c.Records) > 0 {
				// `records G = E` defines the ghost at exit; the postconditions speak about the recorded value
				pst = pst.clone()
				e.cur = pst
				if blk != nil {
					// locals of the function may be named at a return statement
					e.pointBlock, e.pointIdx = blk, len(blk.Instrs)-1
				}
				f.applyRecords(c, e, pst, reach)
			}
			return postView{reach, e}
		}
		var views []postView
		if len(f.rets) > 1 {
			for _, r := range f.rets {
				views = append(views, mkView(r.reach, r.st, r.vals, r.blk))
			}
		} else {
			var blk *ssa.BasicBlock
			if len(f.rets) == 1 {
				blk = f.rets[0].blk
			}
			views = append(views, mkView(exitReach, exitSt, results, blk))
		}
		for i, e := range c.Ensures {
			label := e.Label
			if label == "" {
				label = fmt.Sprintf("e%d", i)
			}
			var parts []string
			for _, v := range views {
				parts = append(parts, "(=> "+v.reach+" "+v.e.boolExpr(e.E)+")")
			}
			props := e.Props
			if props == nil {
				props = c.Props
			}
			vc.oblige("post", label, "true", and(parts...), fn.Pos(), e.Src, props)
		}
		vc.frameObligations(f, exitReach, entry, exitSt, c.Modifies, "frame", c.Props, true)
		vc.globalInvariants(exitReach, entry, exitSt, fn.Pos(), c.Props)
	}
	cov := vc.oblige("cover", "exit", "true", exitReach, fn.Pos(), "the exit of the function is reachable under its preconditions and the assumed callee contracts", c.Props)
	cov.Trivial = false
	if len(f.rets) > 1 {
		// one cover per return statement: a callee contract or an invariant that contradicts what is known on one
		// path makes everything proved on that path vacuous while the exit as a whole stays reachable
		for i, r := range f.rets {
			pos := r.pos
			if !pos.IsValid() {
				pos = fn.Pos()
			}
			rc := vc.oblige("cover", fmt.Sprintf("ret%d", i), "true", r.reach, pos, "this return statement is reachable under the preconditions and the assumed callee contracts", c.Props)
			rc.Trivial = false
		}
	}
	// site expectations
	for _, ex := range c.Expect {
		n := vc.callsSeen[ex.Callee]
		goal := "true"
		if n < ex.Min {
			goal = "false"
		}
		o := vc.oblige("site", "calls_"+mangle(ex.Callee), "true", goal, fn.Pos(), fmt.Sprintf("expect calls %s >= %d (found %d)", ex.Callee, ex.Min, n), c.Props)
		o.Trivial = false
	}
	for _, sc := range c.Sites {
		if vc.sitesHit[sc] == 0 {
			lbl := sc.Label
			if lbl == "" {
				lbl = mangle(sc.Callee)
			}
			o := vc.oblige("bind", "site_"+lbl, "true", "false", fn.Pos(), "assert "+sc.Kind[6:]+" "+sc.Callee+": no such call site", sc.Props)
			o.Trivial = false
		}
	}
	loopKeys := map[int]bool{}
	for k := range c.LoopInv {
		loopKeys[k] = true
	}
	for k := range c.LoopStep {
		loopKeys[k] = true
	}
	for k := range c.LoopMod {
		loopKeys[k] = true
	}
	for k := range loopKeys {
		found := false
		for _, li := range f.loops {
			if li.ordinal == k {
				found = true
			}
		}
		if vc.splice != nil && vc.splice.helperOrd[k] {
			found = true
		}
		if !found {
			o := vc.oblige("bind", fmt.Sprintf("loop%d", k), "true", "false", fn.Pos(), fmt.Sprintf("loop %d does not exist", k), c.Props)
			o.Trivial = false
		}
	}
	if len(c.FuncSet) > 0 {
		if msg := vc.validateFuncSet(c); msg != "" {
			o := vc.oblige("bind", "funcset_"+mangle(c.FuncSetGlobal), "true", "false", fn.Pos(), "funcset "+c.FuncSetGlobal+": "+msg, c.Props)
			o.Trivial = false
		}
	}
	for _, u := range vc.unsup {
		o := vc.oblige("unsupported", mangle(u), "true", "false", fn.Pos(), u, c.Props)
		o.Trivial = false
	}
	return vc, nil
}

type genError string

func fail(format string, a ...any) {
	if os.Getenv("VERIF_DEBUG") != "" {
		debug.PrintStack()
	}
	panic(genError(fmt.Sprintf(format, a...)))
}

// frameObligations: everything not listed in mods is unchanged between st0 and st1.
func (vc *FnVC) frameObligations(f *frame, guard string, st0, st1 *state, mods []ModLoc, kind string, props []string, atExit bool, scalarRef ...*state) {
	star := false
	whole := map[string]bool{}
	single := map[string][]string{} // key -> list of Ref terms
	env := f.env(st0, st0)
	if f.borrow {
		env = f.parent().env(st0, st0)
	}
	if vc.frameLoop != nil && vc.frameLoop.entryEnv != nil {
		// a loop's own modifies clause may name locals and loop-carried variables: evaluate it where the loop starts
		env = vc.frameLoop.entryEnv.clone()
		env.cur, env.old = st0, st0
	}
	for _, m := range mods {
		switch {
		case m.Star:
			star = true
		case m.Ghost != "":
			k, _, ok := vc.ghostKey(m.Ghost)
			if !ok {
				fail("modifies: unknown ghost %s", m.Ghost)
			}
			whole[k] = true
		case m.Heap != "":
			for _, k := range env.heapKeysOfSpec(m.Heap) {
				whole[k] = true
			}
		default:
			for _, kl := range env.modPlace(m.Place) {
				if kl.ref == "" {
					whole[kl.key] = true
				} else {
					single[kl.key] = append(single[kl.key], kl.ref)
				}
			}
		}
	}
	if atExit && f.c != nil {
		for _, r := range f.c.Records {
			if k, _, ok := vc.ghostKey(r.Ghost); ok {
				whole[k] = true
			}
		}
	}
	if star {
		return
	}
	if st1.havocked != "false" {
		vc.oblige(kind, "no_unspecified_effects", guard, not(st1.havocked), f.fn.Pos(), "a callee without contract (modifies *) is reached but the frame is not *", props)
	}
	keys := map[string]bool{}
	for k := range st1.h {
		keys[k] = true
	}
	var ks []string
	for k := range keys {
		ks = append(ks, k)
	}
	sort.Strings(ks)
	for _, k := range ks {
		if k == "A" || whole[k] || strings.HasPrefix(k, "R|") {
			continue
		}
		t1 := st1.h[k]
		t0 := vc.hget(st0, k)
		if t0 == t1 {
			continue
		}
		so := vc.heapSort(k)
		label := mangle(k)
		if strings.HasPrefix(so, "(Array Ref ") {
			r := vc.fresh("fr", "Ref")
			conds := []string{"(select " + vc.hget(st0, vc.allocKey()) + " " + r + ")"}
			for _, l := range single[k] {
				conds = append(conds, not(eq(r, l)))
			}
			vc.oblige(kind, label, and(guard, and(conds...)), eq("(select "+t1+" "+r+")", "(select "+t0+" "+r+")"), f.fn.Pos(), "frame: "+k+" unchanged outside the modifies clause", props)
		} else if strings.HasPrefix(so, "(Array Iface ") {
			// a ghost map keyed by interface values (per-object ghost state of library objects): like a field, it
			// is framed for the objects that existed on entry — what a function records about objects it allocates
			// itself is not an effect its caller can observe
			r := vc.fresh("fi", "Iface")
			existed := or(eq("(iref "+r+")", "nil"), "(select "+vc.hget(st0, vc.allocKey())+" (iref "+r+"))")
			vc.oblige(kind, label, and(guard, existed), eq("(select "+t1+" "+r+")", "(select "+t0+" "+r+")"), f.fn.Pos(), "frame: "+k+" unchanged for the objects that existed on entry", props)
		} else {
			if len(scalarRef) > 0 && scalarRef[0] != nil {
				// loop frame of a scalar (ghost / global): the body leaves it as it was on loop entry
				t0 = vc.hget(scalarRef[0], k)
				if t0 == t1 {
					continue
				}
			}
			vc.oblige(kind, label, guard, eq(t1, t0), f.fn.Pos(), "frame: "+k+" unchanged", props)
		}
	}
}

func (f *frame) mergeReturns() (string, []*sym, *state) {
	vc := f.vc
	if len(f.rets) == 0 {
		return "false", nil, nil
	}
	if len(f.rets) == 1 {
		return f.rets[0].reach, f.rets[0].vals, f.rets[0].st
	}
	var reaches []string
	var sts []*state
	for _, r := range f.rets {
		reaches = append(reaches, r.reach)
		sts = append(sts, r.st)
	}
	st := vc.mergeStates(reaches, sts)
	var vals []*sym
	for i := range f.rets[0].vals {
		t := f.rets[len(f.rets)-1].vals[i].t
		for j := len(f.rets) - 2; j >= 0; j-- {
			t = ite(f.rets[j].reach, f.rets[j].vals[i].t, t)
		}
		ty := f.rets[0].vals[i].typ
		vals = append(vals, &sym{t: vc.define("ret", vc.w.so.sortOf(ty), t), typ: ty})
	}
	return vc.define("exit", "Bool", or(reaches...)), vals, st
}

func (vc *FnVC) mergeStates(conds []string, sts []*state) *state {
	if len(sts) == 1 {
		return sts[0].clone()
	}
	sameEpoch := true
	for _, s := range sts[1:] {
		if s.epoch != sts[0].epoch {
			sameEpoch = false
		}
	}
	out := &state{h: map[string]string{}}
	keys := map[string]bool{}
	for _, s := range sts {
		for k := range s.h {
			keys[k] = true
		}
	}
	var ks []string
	for k := range keys {
		ks = append(ks, k)
	}
	sort.Strings(ks)
	if sameEpoch {
		out.epoch = sts[0].epoch
		if sts[0].msts != nil {
			// all parents share the lazily resolved ancestry only if it is the very same one
			shared := true
			for _, s := range sts[1:] {
				if len(s.msts) != len(sts[0].msts) || (len(s.msts) > 0 && &s.msts[0] != &sts[0].msts[0]) {
					shared = false
				}
			}
			if shared {
				out.mconds, out.msts = sts[0].mconds, sts[0].msts
			} else {
				sameEpoch = false
			}
		}
	}
	if !sameEpoch {
		epochCounter++
		out.epoch = epochCounter
		out.mconds = append([]string{}, conds...)
		for _, s := range sts {
			out.msts = append(out.msts, s.clone())
		}
	}
	for _, k := range ks {
		terms := make([]string, len(sts))
		same := true
		for i, s := range sts {
			terms[i] = vc.hget(s, k)
			if terms[i] != terms[0] {
				same = false
			}
		}
		if same {
			if sameEpoch || sts[0].h[k] != "" {
				out.h[k] = terms[0]
			}
			continue
		}
		t := terms[len(terms)-1]
		for i := len(terms) - 2; i >= 0; i-- {
			t = ite(conds[i], terms[i], t)
		}
		out.h[k] = vc.define("h_"+k, vc.heapSort(k), t)
	}
	hv := sts[len(sts)-1].havocked
	for i := len(sts) - 2; i >= 0; i-- {
		hv = ite(conds[i], sts[i].havocked, hv)
	}
	out.havocked = vc.define("hv", "Bool", hv)
	return out
}

// run executes the body symbolically from state st (which it takes ownership of).
func (f *frame) run(st *state, entryReach string) {
	vc := f.vc
	fn := f.fn
	order := forwardOrder(fn)
	visited := map[*ssa.BasicBlock]bool{}
	inOrder := map[*ssa.BasicBlock]bool{}
	for _, b := range order {
		inOrder[b] = true
	}
	for _, b := range fn.Blocks {
		if !inOrder[b] {
			visited[b] = true // unreachable over forward edges (e.g. the recover block)
		}
	}
	for _, b := range order {
		var cur *state
		var reach string
		if b == fn.Blocks[0] {
			cur, reach = st, entryReach
		} else {
			var conds []string
			var sts []*state
			var preds []*ssa.BasicBlock
			for _, p := range b.Preds {
				if isBackEdge(p, b) {
					continue
				}
				ec, ok := f.edge[[2]int{p.Index, b.Index}]
				if !ok {
					continue // unreachable predecessor
				}
				conds = append(conds, ec)
				sts = append(sts, f.out[p])
				preds = append(preds, p)
			}
			if len(conds) == 0 {
				visited[b] = true
				f.closeLoops(visited)
				continue
			}
			reach = vc.define(fmt.Sprintf("reach_b%d", b.Index), "Bool", or(conds...))
			li := f.loops[b]
			if li != nil {
				cur = f.enterLoop(li, b, preds, conds, sts, reach)
			} else {
				cur = vc.mergeStates(conds, sts)
				// phis
				for _, in := range b.Instrs {
					phi, ok := in.(*ssa.Phi)
					if !ok {
						break
					}
					f.vals[phi] = f.mergePhi(phi, b, preds, conds)
				}
			}
		}
		f.reach[b] = reach
		f.execBlock(b, cur, reach)
		visited[b] = true
		f.closeLoops(visited)
	}
	f.closeLoops(nil)
}

func (f *frame) mergePhi(phi *ssa.Phi, b *ssa.BasicBlock, preds []*ssa.BasicBlock, conds []string) *sym {
	vc := f.vc
	var terms []string
	for _, p := range preds {
		// find the edge index of p in b.Preds
		for i, bp := range b.Preds {
			if bp == p {
				terms = append(terms, f.val(phi.Edges[i]).t)
				break
			}
		}
	}
	t := terms[len(terms)-1]
	for i := len(terms) - 2; i >= 0; i-- {
		t = ite(conds[i], terms[i], t)
	}
	so := vc.w.so.sortOf(phi.Type())
	return &sym{t: vc.define("phi_"+phi.Comment, so, t), typ: phi.Type()}
}

func headerPos(b *ssa.BasicBlock) token.Pos {
	for _, in := range b.Instrs {
		if in.Pos().IsValid() {
			return in.Pos()
		}
	}
	for _, s := range b.Succs {
		for _, in := range s.Instrs {
			if in.Pos().IsValid() {
				return in.Pos()
			}
		}
	}
	return token.NoPos
}

func (f *frame) loopClauses(li *loopInfo) []*Clause {
	lc := f.loopContract()
	if lc == nil {
		return nil
	}
	return lc.LoopInv[li.ordinal]
}

// loopModKeys scans the loop body for the heap keys it may assign.
func (f *frame) scanLoopMods(li *loopInfo) {
	vc := f.vc
	for b := range li.blocks {
		for _, in := range b.Instrs {
			switch x := in.(type) {
			case *ssa.Store:
				for _, k := range f.staticKeysOfAddr(x.Addr) {
					li.modKeys[k] = true
				}
			case *ssa.MapUpdate:
				if m, ok := x.Map.Type().Underlying().(*types.Map); ok {
					d, v := vc.mapKeys(m)
					li.modKeys[d] = true
					li.modKeys[v] = true
				}
			case *ssa.Alloc, *ssa.MakeMap, *ssa.MakeSlice, *ssa.MakeClosure, *ssa.MakeChan:
				li.modKeys["A"] = true
				if a, ok := x.(*ssa.Alloc); ok {
					for _, k := range f.staticKeysOfAlloc(a) {
						li.modKeys[k] = true
					}
				}
				if ms, ok := x.(*ssa.MakeSlice); ok {
					li.modKeys[vc.elemKey(ms.Type().Underlying().(*types.Slice).Elem())] = true
				}
				if mm, ok := x.(*ssa.MakeMap); ok {
					d, v := vc.mapKeys(mm.Type().Underlying().(*types.Map))
					li.modKeys[d] = true
					li.modKeys[v] = true
				}
			case *ssa.MakeInterface:
				li.modKeys["A"] = true
			case ssa.CallInstruction:
				f.scanCallMods(li, x)
			case *ssa.RunDefers:
				li.modAll = true
			case *ssa.Next:
				if rg, ok := x.Iter.(*ssa.Range); ok && !x.IsString {
					li.modKeys[f.visKey(rg)] = true
				}
			case *ssa.Select, *ssa.Send:
			}
		}
	}
}

func (f *frame) staticKeysOfAlloc(a *ssa.Alloc) []string {
	vc := f.vc
	t := derefType(a.Type())
	if transparentStruct(t) {
		return vc.keysOfPlace(&place{kind: plField, rootT: t, typ: t})
	}
	if arr, ok := t.Underlying().(*types.Array); ok {
		return []string{vc.elemKey(arr.Elem())}
	}
	return []string{vc.cellKey(t)}
}

// staticKeysOfAddr: heap keys that a store through this address expression may touch (type-based).
func (f *frame) staticKeysOfAddr(a ssa.Value) []string {
	vc := f.vc
	switch x := a.(type) {
	case *ssa.FieldAddr:
		// walk up the FieldAddr chain
		var path []int
		var cur ssa.Value = x
		for {
			fa, ok := cur.(*ssa.FieldAddr)
			if !ok {
				break
			}
			path = append([]int{fa.Field}, path...)
			cur = fa.X
		}
		if ia, ok := cur.(*ssa.IndexAddr); ok {
			return f.staticKeysOfAddr(ia)
		}
		if g, ok := cur.(*ssa.Global); ok {
			return []string{vc.globalKey(g)}
		}
		rt := derefType(cur.Type())
		if rt == nil || !transparentStruct(rt) {
			return []string{vc.cellKey(derefType(cur.Type()))}
		}
		lt := pathType(rt, path)
		return vc.keysOfPlace(&place{kind: plField, rootT: rt, path: path, typ: lt})
	case *ssa.IndexAddr:
		switch u := x.X.Type().Underlying().(type) {
		case *types.Slice:
			return []string{vc.elemKey(u.Elem())}
		case *types.Pointer:
			if arr, ok := u.Elem().Underlying().(*types.Array); ok {
				return []string{vc.elemKey(arr.Elem())}
			}
		}
	case *ssa.Global:
		return []string{vc.globalKey(x)}
	}
	t := derefType(a.Type())
	if t == nil {
		return nil
	}
	if transparentStruct(t) {
		return vc.keysOfPlace(&place{kind: plField, rootT: t, typ: t})
	}
	return []string{vc.cellKey(t)}
}

func (f *frame) scanCallMods(li *loopInfo, call ssa.CallInstruction) {
	vc := f.vc
	if _, isGo := call.(*ssa.Go); isGo {
		c, callee := f.calleeContract(call.Common())
		if c != nil {
			env2 := f.calleeTypeEnv(c, call.Common(), callee)
			for _, m := range c.SpawnMod {
				switch {
				case m.Star:
					li.modAll = true
				case m.Ghost != "":
					if k, _, ok := vc.ghostKey(m.Ghost); ok {
						li.modKeys[k] = true
					}
				case m.Heap != "":
					for _, k := range env2.heapKeysOfSpec(m.Heap) {
						li.modKeys[k] = true
					}
				default:
					for _, kl := range env2.modPlace(m.Place) {
						li.modKeys[kl.key] = true
					}
				}
			}
		} else {
			li.modAll = true
		}
		return
	}
	if _, isDefer := call.(*ssa.Defer); isDefer {
		return
	}
	com := call.Common()
	if b, ok := com.Value.(*ssa.Builtin); ok {
		switch b.Name() {
		case "append":
			li.modKeys["A"] = true
			if sl, ok := com.Args[0].Type().Underlying().(*types.Slice); ok {
				li.modKeys[vc.elemKey(sl.Elem())] = true
			}
		case "copy":
			if sl, ok := com.Args[0].Type().Underlying().(*types.Slice); ok {
				li.modKeys[vc.elemKey(sl.Elem())] = true
			}
		case "delete":
			if m, ok := com.Args[0].Type().Underlying().(*types.Map); ok {
				d, v := vc.mapKeys(m)
				li.modKeys[d] = true
				li.modKeys[v] = true
			}
		}
		return
	}
	c, callee := f.calleeContract(com)
	if c == nil {
		if callee != nil && (nativeModel(callee.String()) || valueOnlyLibrary(callee)) {
			return
		}
		if callee != nil && (callee.Parent() != nil || f.smallHelper(callee) || (vc.splice != nil && vc.splice.helpers[callee])) && len(callee.Blocks) > 0 && vc.depth < 3 {
			// a local closure without contract is inlined at the call: its effects are those of its body
			vc.depth++
			sub := vc.newFrame(callee)
			tmp := &loopInfo{blocks: map[*ssa.BasicBlock]bool{}, modKeys: li.modKeys}
			for _, b := range callee.Blocks {
				tmp.blocks[b] = true
			}
			sub.scanLoopMods(tmp)
			vc.depth--
			if tmp.modAll {
				li.modAll = true
			}
			return
		}
		if callee == nil && vc.c != nil && len(vc.c.FuncSet) > 0 {
			// dynamic call through a declared function table: the union of the candidates' effects
			all := true
			for _, n := range vc.c.FuncSet {
				fn := vc.w.funcs[absName(n, vc.c.Pkg)]
				var cc *Contract
				if fn != nil {
					cc = vc.w.contractOf(nameOf(fn))
				}
				if fn == nil || cc == nil {
					all = false
					break
				}
				f.scanContractMods(li, cc, com, fn)
			}
			if all {
				return
			}
		}
		li.modAll = true
		return
	}
	f.scanContractMods(li, c, com, callee)
}

func (f *frame) scanContractMods(li *loopInfo, c *Contract, com *ssa.CallCommon, callee *ssa.Function) {
	vc := f.vc
	for _, r := range c.Records {
		if k, _, ok := vc.ghostKey(r.Ghost); ok {
			li.modKeys[k] = true
		}
	}
	if c.Pure || c.NoEffect {
		return
	}
	if c.Inline && callee != nil {
		// approximate: scan callee body keys
		sub := vc.newFrame(callee)
		tmp := &loopInfo{blocks: map[*ssa.BasicBlock]bool{}, modKeys: li.modKeys}
		for _, b := range callee.Blocks {
			tmp.blocks[b] = true
		}
		sub.scanLoopMods(tmp)
		if tmp.modAll {
			li.modAll = true
		}
		return
	}
	env := (&frame{vc: vc, fn: f.fn, names: map[string]*sym{}}).env(&state{h: map[string]string{}}, nil)
	env.pkgPath = c.Pkg
	env.typesOnly = true
	for _, m := range c.Modifies {
		switch {
		case m.Star:
			li.modAll = true
		case m.Ghost != "":
			k, _, ok := vc.ghostKey(m.Ghost)
			if ok {
				li.modKeys[k] = true
			}
		case m.Heap != "":
			for _, k := range env.heapKeysOfSpec(m.Heap) {
				li.modKeys[k] = true
			}
		default:
			// type-directed: need parameter types
			env2 := f.calleeTypeEnv(c, com, callee)
			for _, kl := range env2.modPlace(m.Place) {
				li.modKeys[kl.key] = true
			}
		}
	}
	if declaresAlloc(c) {
		li.modKeys["A"] = true
	}
}

// declaresAlloc: the contract says the function may allocate objects that are visible to the caller.
func declaresAlloc(c *Contract) bool {
	if c.FreshRes {
		return true
	}
	for _, m := range c.Modifies {
		if m.Star || strings.ReplaceAll(m.Heap, " ", "") == "alloc" {
			return true
		}
	}
	return false
}

func (f *frame) enterLoop(li *loopInfo, b *ssa.BasicBlock, preds []*ssa.BasicBlock, conds []string, sts []*state, reach string) *state {
	vc := f.vc
	f.scanLoopMods(li)
	pre := vc.mergeStates(conds, sts)
	li.preSt = pre
	// incoming phi values on entry
	entryVals := map[*ssa.Phi]*sym{}
	li.phiSyms = map[*ssa.Phi]*sym{}
	for _, in := range b.Instrs {
		phi, ok := in.(*ssa.Phi)
		if !ok {
			break
		}
		entryVals[phi] = f.mergePhi(phi, b, preds, conds)
		if phi.Comment == "rangeindex" {
			li.rangeIdx = phi
		}
	}
	clauses := f.loopClauses(li)
	// invariant on entry
	names := func(vals map[*ssa.Phi]*sym) map[string]*sym {
		m := map[string]*sym{}
		for phi, s := range vals {
			if phi.Comment != "" {
				if phi.Comment == "rangeindex" {
					m["idx"] = s
				} else {
					m[phi.Comment] = s
				}
			}
		}
		return m
	}
	envE := f.specEnv(pre, b)
	for k, v := range names(entryVals) {
		envE.vars[k] = v
	}
	f.bindEnclosing(li, envE)
	f.bindRangeVisited(li, envE, true)
	li.entryEnv = envE
	envE.entryEnv = envE
	for i, cl := range clauses {
		label := cl.Label
		if label == "" {
			label = fmt.Sprintf("i%d", i)
		}
		props := cl.Props
		vc.oblige(fmt.Sprintf("inv-entry%d", li.ordinal), label, reach, envE.boolExpr(cl.E), headerPos(b), cl.Src, props)
	}
	// havoc
	cur := pre.clone()
	if li.modAll {
		vc.havocAll(cur, "false")
		cur.havocked = pre.havocked
		// a loop that reaches an unspecified callee: remember
		hv := vc.fresh("loophv", "Bool")
		cur.havocked = or(pre.havocked, hv)
		li.headSt = cur.clone()
	} else {
		var lmods []ModLoc
		hasLoopMod := false
		lc := f.loopContract()
		if lc != nil {
			lmods, hasLoopMod = lc.LoopMod[li.ordinal]
			if !hasLoopMod && lc.HasMod {
				lmods = lc.Modifies
				hasLoopMod = true
			}
		}
		single := map[string][]string{}
		whole := map[string]bool{}
		star := !hasLoopMod
		if hasLoopMod {
			env0 := f.specEnvAtEntry()
			if _, own := lc.LoopMod[li.ordinal]; own {
				env0 = f.specEnv(pre, b)
				for k, v := range names(entryVals) {
					env0.vars[k] = v
				}
				f.bindEnclosing(li, env0)
			}
			for _, m := range lmods {
				switch {
				case m.Star:
					star = true
				case m.Ghost != "":
					if k, _, ok := vc.ghostKey(m.Ghost); ok {
						whole[k] = true
					}
				case m.Heap != "":
					for _, k := range env0.heapKeysOfSpec(m.Heap) {
						whole[k] = true
					}
				default:
					for _, kl := range env0.modPlace(m.Place) {
						if kl.ref == "" {
							whole[kl.key] = true
						} else {
							single[kl.key] = append(single[kl.key], kl.ref)
						}
					}
				}
			}
		}
		var ks []string
		for k := range li.modKeys {
			ks = append(ks, k)
		}
		sort.Strings(ks)
		for _, k := range ks {
			so := vc.heapSort(k)
			if !star && !whole[k] && k != "A" && hasLoopMod && strings.HasPrefix(so, "(Array Ref ") {
				// The frame says: only the listed locations, and objects allocated after the reference
				// state, may differ from the reference state (function entry, or loop entry when the loop
				// has its own modifies clause).  The back-edge frame obligation checks exactly this.
				ref := f.oldSt
				if _, own := lc.LoopMod[li.ordinal]; own {
					ref = pre
				}
				h0 := vc.hget(ref, k)
				a0 := vc.hget(ref, "A")
				nh := vc.freshHeap("h_"+k, so, vc.hget(cur, "A"))
				var conds []string
				conds = append(conds, "(select "+a0+" fr)")
				for _, r := range single[k] {
					conds = append(conds, not(eq("fr", r)))
				}
				vc.emit(fmt.Sprintf("(assert (forall ((fr Ref)) (! (=> %s (= (select %s fr) (select %s fr))) :pattern ((select %s fr)))))", and(conds...), nh, h0, nh))
				cur.h[k] = nh
			} else if !star && !whole[k] && k != "A" && hasLoopMod && !strings.HasPrefix(k, "R|") {
				// scalar heap (ghost / global) that the frame declares unmodified: keep it
				continue
			} else {
				vc.havocKey(cur, k)
			}
		}
		li.headSt = cur.clone()
	}
	// phis fresh
	for _, in := range b.Instrs {
		phi, ok := in.(*ssa.Phi)
		if !ok {
			break
		}
		s := &sym{t: vc.fresh("lphi_"+phi.Comment, vc.w.so.sortOf(phi.Type())), typ: phi.Type()}
		f.vals[phi] = s
		li.phiSyms[phi] = s
		vc.wf(reach, s.t, phi.Type(), cur, 0)
	}
	// assume invariants
	envH := f.specEnv(cur, b)
	for k, v := range names(li.phiSyms) {
		envH.vars[k] = v
	}
	f.bindEnclosing(li, envH)
	f.bindRangeVisited(li, envH, false)
	envH.entryEnv = li.entryEnv
	for _, cl := range clauses {
		vc.assume(reach, envH.boolExpr(cl.E))
	}
	// automatic range-index facts
	if li.rangeIdx != nil {
		if L := f.rangeLen(b, li.rangeIdx); L != "" {
			idx := li.phiSyms[li.rangeIdx].t
			vc.assume(reach, fmt.Sprintf("(and (<= (- 1) %s) (or (< %s %s) (= %s (- 1))))", idx, idx, L, idx))
		}
	}
	return cur
}

// bindEnclosing makes the loop-carried variables of the loops that enclose li visible: the range index of the
// enclosing loop with ordinal k is idx<k>; named variables keep their source names unless shadowed.
func (f *frame) bindEnclosing(li *loopInfo, e *env) {
	for _, outer := range f.loops {
		if outer == li || !outer.blocks[li.header] || outer.phiSyms == nil {
			continue
		}
		for phi, s := range outer.phiSyms {
			if phi.Comment == "rangeindex" {
				e.vars[fmt.Sprintf("idx%d", outer.ordinal)] = s
			} else if phi.Comment != "" {
				if _, exists := e.vars[phi.Comment]; !exists {
					e.vars[phi.Comment] = s
				}
			}
		}
	}
}

// bindRangeVisited binds the ghost "visited" set of a map-range loop into a spec environment.
func (f *frame) bindRangeVisited(li *loopInfo, e *env, entry bool) {}

// rangeLen finds L in the header pattern  t = idx + 1; c = t < L.
func (f *frame) rangeLen(b *ssa.BasicBlock, idx *ssa.Phi) string {
	for _, in := range b.Instrs {
		if bo, ok := in.(*ssa.BinOp); ok && bo.Op == token.LSS {
			if add, ok := bo.X.(*ssa.BinOp); ok && add.Op == token.ADD && add.X == idx {
				if s, ok := f.vals[bo.Y]; ok {
					return s.t
				}
				if c, ok := bo.Y.(*ssa.Const); ok {
					return f.vc.constSym(c).t
				}
			}
		}
	}
	return ""
}

// backEdge records an edge from -> header; the obligations are emitted once per loop by closeLoops.
func (f *frame) backEdge(from *ssa.BasicBlock, li *loopInfo, cond string, st *state) {
	li.backs = append(li.backs, backRec{from, cond, st})
}

// closeLoops emits, per loop, the invariant-preservation and loop-frame obligations over the join of all
// its back edges (one obligation per clause, independent of how many `continue` statements the body has).
func (f *frame) closeLoops(visited map[*ssa.BasicBlock]bool) {
	vc := f.vc
	var lis []*loopInfo
	for _, li := range f.loops {
		lis = append(lis, li)
	}
	// inner loops (higher ordinal) first
	sort.Slice(lis, func(i, j int) bool { return lis[i].ordinal > lis[j].ordinal })
	for _, li := range lis {
		if li.closed {
			continue
		}
		if visited != nil {
			all := true
			for b := range li.blocks {
				if !visited[b] {
					all = false
					break
				}
			}
			if !all {
				continue
			}
		}
		li.closed = true
		if len(li.backs) == 0 {
			continue
		}
		b := li.header
		var conds []string
		var sts []*state
		for _, br := range li.backs {
			conds = append(conds, br.cond)
			sts = append(sts, br.st)
		}
		st := vc.mergeStates(conds, sts)
		cond := vc.define(fmt.Sprintf("latch%d", li.ordinal), "Bool", or(conds...))
		env := f.specEnv(st, b)
		env.entryEnv = li.entryEnv
		f.bindEnclosing(li, env)
		for _, in := range b.Instrs {
			phi, ok := in.(*ssa.Phi)
			if !ok {
				break
			}
			if phi.Comment == "" {
				continue
			}
			var terms []string
			for _, br := range li.backs {
				for i, p := range b.Preds {
					if p == br.from {
						terms = append(terms, f.symTerm(f.val(phi.Edges[i])))
						break
					}
				}
			}
			t := terms[len(terms)-1]
			for i := len(terms) - 2; i >= 0; i-- {
				t = ite(conds[i], terms[i], t)
			}
			n := phi.Comment
			if n == "rangeindex" {
				n = "idx"
			}
			env.vars[n] = &sym{t: vc.define("latch_"+n, vc.w.so.sortOf(phi.Type()), t), typ: phi.Type()}
		}
		for i, cl := range f.loopClauses(li) {
			label := cl.Label
			if label == "" {
				label = fmt.Sprintf("i%d", i)
			}
			vc.oblige(fmt.Sprintf("inv-keep%d", li.ordinal), label, cond, env.boolExpr(cl.E), headerPos(b), cl.Src, cl.Props)
		}
		// per-iteration (two-state) clauses: iter(e) is the value of e at the head of this iteration
		if lc := f.loopContract(); lc != nil {
			ienv := f.specEnv(li.headSt, b)
			for phi, s := range li.phiSyms {
				if phi.Comment == "rangeindex" {
					ienv.vars["idx"] = s
				} else if phi.Comment != "" {
					ienv.vars[phi.Comment] = s
				}
			}
			// idx denotes the element processed in this iteration, inside and outside iter()
			if v, ok := env.vars["idx"]; ok {
				ienv.vars["idx"] = v
			}
			env.iterEnv = ienv
			for i, cl := range lc.LoopStep[li.ordinal] {
				label := cl.Label
				if label == "" {
					label = fmt.Sprintf("s%d", i)
				}
				vc.oblige(fmt.Sprintf("step%d", li.ordinal), label, cond, env.boolExpr(cl.E), headerPos(b), cl.Src, cl.Props)
			}
		}
		// loop frame: relative to the function entry (or loop entry when the loop has its own modifies)
		if lc := f.loopContract(); lc != nil && !li.modAll {
			if lm, own := lc.LoopMod[li.ordinal]; own {
				vc.frameLoop = li
				vc.frameObligations(f, cond, li.preSt, st, lm, fmt.Sprintf("loopframe%d", li.ordinal), lc.Props, false)
				vc.frameLoop = nil
			} else if lc.HasMod {
				vc.frameObligations(f, cond, f.oldSt, st, lc.Modifies, fmt.Sprintf("loopframe%d", li.ordinal), lc.Props, false, li.preSt)
			}
		}
	}
}

func (f *frame) val(v ssa.Value) *sym {
	if s, ok := f.vals[v]; ok {
		return s
	}
	vc := f.vc
	switch x := v.(type) {
	case *ssa.Const:
		return vc.constSym(x)
	case *ssa.Global:
		return &sym{typ: x.Type(), pl: &place{kind: plGlobal, glob: x, elemT: derefType(x.Type()), typ: derefType(x.Type())}}
	case *ssa.Function:
		s := &sym{t: "fn_" + mangle(x.String()), typ: x.Type(), clos: &closInfo{fn: x}}
		if !vc.declared[s.t] {
			vc.declared[s.t] = true
			vc.emit("(declare-const " + s.t + " Ref)")
			vc.emit("(assert (not (= " + s.t + " nil)))")
		}
		return s
	case *ssa.Builtin:
		return &sym{t: "nil", typ: x.Type()}
	}
	fail("value %s (%T) used before definition in %s", v.Name(), v, f.fn.String())
	return nil
}

// first-class term of a value; addresses that were kept static are turned into opaque refs here.
func (f *frame) term(v ssa.Value) string {
	s := f.val(v)
	return f.symTerm(s)
}

func (f *frame) symTerm(s *sym) string {
	if s.pl != nil && s.t == "" {
		vc := f.vc
		if s.pl.kind == plField && s.pl.root != "" {
			// the address of a field is a function of the object: &x.mu denotes the same pointer every time
			fn := "faddr_" + mangle(vc.fieldKey(s.pl.rootT, s.pl.path))
			if !vc.declared[fn] {
				vc.declared[fn] = true
				vc.emit(fmt.Sprintf("(declare-fun %s (Ref) Ref)", fn))
				vc.emit(fmt.Sprintf("(assert (forall ((fa Ref)) (! (not (= (%s fa) nil)) :pattern ((%s fa)))))", fn, fn))
			}
			s.t = vc.define("addr", "Ref", "("+fn+" "+s.pl.root+")")
			return s.t
		}
		// any other interior address escapes as a first-class value: an opaque non-nil pointer that is not the
		// identity of any object (so frame conditions over objects do not speak about it)
		key := "addr"
		s.t = vc.fresh(key, "Ref")
		vc.assume("true", not(eq(s.t, "nil")))
		if vc.entrySt != nil {
			vc.assume("true", not("(select "+vc.hget(vc.entrySt, "A")+" "+s.t+")"))
		}
	}
	return s.t
}

// globalInvariants: a global declared `positive` is positive again at the exit of every function that changed it.
func (vc *FnVC) globalInvariants(reach string, entry, exit *state, pos token.Pos, props []string) {
	var names []string
	for n, d := range vc.w.defs {
		if d.Kind == "global" && d.Result == "positive" {
			names = append(names, n[len("global:"):])
		}
	}
	sort.Strings(names)
	for _, n := range names {
		k := vc.regHeap("V|"+n, "Int") // registered here so that the obligation does not depend on what was translated before
		t0, t1 := vc.hget(entry, k), vc.hget(exit, k)
		if t0 == t1 {
			continue
		}
		vc.oblige("post", "global_"+mangle(n)+"_stays_positive", reach, fmt.Sprintf("(> %s 0)", t1), pos, "global invariant: "+n+" > 0 at exit", props)
	}
}

// postView: the state of one return statement in which the postconditions are evaluated.
type postView struct {
	reach string
	e     *env
}

func unionProps(a, b []string) []string {
	if len(a) == 0 {
		return b
	}
	out := append([]string(nil), a...)
	for _, p := range b {
		if !hasProp(out, p) {
			out = append(out, p)
		}
	}
	return out
}
