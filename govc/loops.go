package main

// Loops that moved into helpers.  A loop invariant is keyed by the ordinal of its loop in the function under
// contract.  When a maintainer moves a loop, unchanged, into a helper function of the same package (and gives the
// helper no contract), the function has fewer loops than its contract speaks about and the helper has a loop nobody
// specified.  `govc expect` records the number of loops of every function under contract (contracts/functions.json);
// if a function now has fewer, and the helpers it calls directly supply exactly the missing number, the helpers are
// executed in place (like small loop-free helpers always are) and their loops take the ordinals they had when they
// stood at the call: the function's own loops and the helper calls are ordered by source position, a helper call
// standing for as many consecutive ordinals as the helper has loops.  The borrowed loop's clauses are read in the
// environment of the function under contract at the call (its locals, the contract's parameter names) extended with
// the helper's parameters and the loop's own variables.
//
// Nothing is assumed: the invariants are established, preserved and used on the helper's real loop.  If the counts
// do not add up the contract does not bind and that is reported, as before.

import (
	"fmt"
	"go/token"
	"sort"

	"golang.org/x/tools/go/ssa"
)

type loopSplice struct {
	topOrd    map[*ssa.BasicBlock]int // header of an own loop -> contract ordinal
	callBase  map[ssa.Instruction]int // call of a loop helper -> ordinal of its first loop
	helpers   map[*ssa.Function]bool  // the helpers executed in place
	helperOrd map[int]bool            // contract ordinals supplied by helpers
	note      []string
}

func loopHeaders(fn *ssa.Function) []*ssa.BasicBlock {
	seen := map[*ssa.BasicBlock]bool{}
	var hs []*ssa.BasicBlock
	for _, b := range fn.Blocks {
		for _, s := range b.Succs {
			if s.Dominates(b) && !seen[s] {
				seen[s] = true
				hs = append(hs, s)
			}
		}
	}
	sort.Slice(hs, func(i, j int) bool { return hs[i].Index < hs[j].Index })
	return hs
}

// loopHelperOK: a named function of the same package without contract that may be executed in place although it
// has loops (no goroutines, defers, selects, recursion; moderate size).
func (vc *FnVC) loopHelperOK(callee *ssa.Function) bool {
	if callee == nil || callee.Parent() != nil || len(callee.Blocks) == 0 || callee.Pkg == nil || vc.fn == nil {
		return false
	}
	top := vc.fn
	for top.Parent() != nil {
		top = top.Parent()
	}
	if top.Pkg == nil || callee.Pkg != top.Pkg || callee == top || vc.w.contractOf(nameOf(callee)) != nil {
		return false
	}
	n := 0
	for _, b := range callee.Blocks {
		for _, in := range b.Instrs {
			switch x := in.(type) {
			case *ssa.DebugRef:
				continue
			case *ssa.Go, *ssa.Select, *ssa.Defer:
				return false
			case ssa.CallInstruction:
				if x.Common().StaticCallee() == callee {
					return false
				}
			}
			n++
		}
	}
	return n <= 400
}

// planLoopSplice decides, before the body is executed, whether loops of the contract live in helpers now.
func (vc *FnVC) planLoopSplice() {
	c, fn := vc.c, vc.fn
	if c == nil || fn == nil {
		return
	}
	rec, ok := vc.w.recLoops[nameOf(fn)]
	own := loopHeaders(fn)
	if !ok || rec <= len(own) {
		return
	}
	type slot struct {
		pos    token.Pos
		header *ssa.BasicBlock
		call   ssa.Instruction
		callee *ssa.Function
		n      int
	}
	var slots []slot
	for _, h := range own {
		slots = append(slots, slot{pos: headerPos(h), header: h, n: 1})
	}
	for _, b := range fn.Blocks {
		for _, in := range b.Instrs {
			call, isCall := in.(*ssa.Call)
			if !isCall {
				continue
			}
			callee := call.Common().StaticCallee()
			if !vc.loopHelperOK(callee) {
				continue
			}
			if n := len(loopHeaders(callee)); n > 0 {
				slots = append(slots, slot{pos: call.Pos(), call: call, callee: callee, n: n})
			}
		}
	}
	total := 0
	for _, s := range slots {
		total += s.n
	}
	if total != rec {
		return
	}
	sort.SliceStable(slots, func(i, j int) bool { return slots[i].pos < slots[j].pos })
	sp := &loopSplice{topOrd: map[*ssa.BasicBlock]int{}, callBase: map[ssa.Instruction]int{}, helpers: map[*ssa.Function]bool{}, helperOrd: map[int]bool{}}
	k := 0
	for _, s := range slots {
		if s.header != nil {
			sp.topOrd[s.header] = k
		} else {
			sp.callBase[s.call] = k
			sp.helpers[s.callee] = true
			for i := 0; i < s.n; i++ {
				sp.helperOrd[k+i] = true
			}
			sp.note = append(sp.note, fmt.Sprintf("%s: loop %d.. in helper %s", vc.fnName, k, s.callee.Name()))
		}
		k += s.n
	}
	vc.splice = sp
	vc.w.movedLoops = append(vc.w.movedLoops, sp.note...)
}

// loopContract: the contract whose loop clauses apply to the loops of this frame.
func (f *frame) loopContract() *Contract {
	if f.c != nil && !f.inlined {
		return f.c
	}
	if f.borrow {
		return f.vc.c
	}
	return nil
}

// specEnv: the environment in which the loop clauses of a loop of this frame (header b) are read.
func (f *frame) specEnv(st *state, b *ssa.BasicBlock) *env {
	if !f.borrow {
		e := f.env(st, f.oldSt)
		e.pointBlock, e.pointIdx = b, 0
		return e
	}
	e := f.vc.topEnv(f, st)
	e.usePoint()
	e.sub, e.subBlock, e.subIdx = f, b, 0
	if top := f.parent(); top != nil {
		for _, outer := range top.loops {
			if outer.blocks[top.curBlock] && outer.phiSyms != nil {
				for phi, s := range outer.phiSyms {
					if phi.Comment == "rangeindex" {
						e.vars[fmt.Sprintf("idx%d", outer.ordinal)] = s
					}
				}
			}
		}
	}
	return e
}

// specEnvAtEntry: the environment of the function's entry (for a function-level modifies clause used as a loop's).
func (f *frame) specEnvAtEntry() *env {
	if f.borrow {
		top := f.parent()
		return top.env(top.oldSt, top.oldSt)
	}
	return f.env(f.oldSt, f.oldSt)
}

// movedLoopVar: a clause of a borrowed loop names a loop-carried variable of the function under contract that was
// renamed on its way into the helper.  The recorded type of that variable decides: if exactly one loop-carried
// variable of the helper's loops has that type and a name the function never had, it is the one.
func (e *env) movedLoopVar(name string) *sym {
	if e.sub == nil || !e.sub.borrow || e.f == nil || e.f.fn == nil {
		return nil
	}
	rec := e.vc.w.recLocals[nameOf(e.f.fn)]
	typ := ""
	known := map[string]bool{}
	for _, l := range rec {
		known[l.Name] = true
		if l.Name == name {
			if typ != "" && typ != l.Type {
				return nil
			}
			typ = l.Type
		}
	}
	if typ == "" {
		return nil
	}
	var cands []string
	seen := map[string]bool{}
	for _, li := range e.sub.loops {
		for _, in := range li.header.Instrs {
			phi, ok := in.(*ssa.Phi)
			if !ok {
				break
			}
			n := phi.Comment
			if n == "" || n == "rangeindex" || known[n] || seen[n] || typeKey(phi.Type()) != typ {
				continue
			}
			if _, bound := e.vars[n]; bound {
				seen[n] = true
				cands = append(cands, n)
			}
		}
	}
	if len(cands) != 1 {
		return nil
	}
	return e.vars[cands[0]]
}
