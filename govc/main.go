package main

import (
	"flag"
	"fmt"
	"os"
	"sort"
	"strings"
	"time"
)

var verbose = false
var outDir = ""

func (w *World) notesOn() bool { return true }
func (w *World) note(format string, a ...any) {
	s := fmt.Sprintf(format, a...)
	for _, n := range w.notes {
		if n == s {
			return
		}
	}
	w.notes = append(w.notes, s)
}

func usage() {
	fmt.Fprintln(os.Stderr, `usage:
  govc check <property> [quick|thorough]   decide one property (writes evidence, prints VIOLATION lines)
  govc verify <function-substring>...       build and discharge the obligations of matching contracts
  govc dump <function-substring> [oblig]    print the SMT script of an obligation
  govc list                                 list contracts and bound functions
  govc expect                               regenerate contracts/expected_obligations.json`)
	os.Exit(2)
}

func main() {
	repo := flag.String("repo", "/repo", "repository root")
	verif := flag.String("verif", "/verif", "verification root")
	flag.BoolVar(&verbose, "v", false, "verbose")
	timeout := flag.Int("timeout", 10, "per-solver timeout in seconds")
	flag.StringVar(&outDir, "out", "", "directory for evidence/, replays/, work/ (default: the verification root)")
	flag.Parse()
	args := flag.Args()
	if len(args) == 0 {
		usage()
	}
	t0 := time.Now()
	switch args[0] {
	case "check":
		if len(args) < 2 {
			usage()
		}
		tier := "quick"
		if len(args) > 2 {
			tier = args[2]
		}
		if args[1] == "all" {
			os.Exit(runCheckAll(*repo, *verif, tier))
		}
		os.Exit(runCheck(*repo, *verif, args[1], tier))
	case "expect":
		os.Exit(runExpect(*repo, *verif))
	case "selftest":
		os.Exit(runSelftest(*repo, *verif, args[1:]))
	}
	w, err := loadWorld(*repo, *verif)
	if err != nil {
		fmt.Fprintln(os.Stderr, "load:", err)
		os.Exit(3)
	}
	if verbose {
		fmt.Fprintf(os.Stderr, "loaded in %.1fs: %d functions, %d contracts, %d defs\n", time.Since(t0).Seconds(), len(w.funcs), len(w.contracts), len(w.defs))
	}
	switch args[0] {
	case "list":
		var names []string
		for n := range w.contracts {
			names = append(names, n)
		}
		sort.Strings(names)
		for _, n := range names {
			c := w.contracts[n]
			bound := w.funcOf(n) != nil
			kind := "verify"
			if c.Assumed {
				kind = "assumed"
			} else if c.Trusted {
				kind = "trusted"
			}
			fmt.Printf("%-8s bound=%-5v props=%v %s\n", kind, bound, c.Props, n)
		}
	case "verify", "dump":
		var obls []*Obligation
		for n, c := range w.contracts {
			if c.Assumed || c.Trusted || c.Inline {
				continue
			}
			match := len(args) == 1
			for _, a := range args[1:minInt(2, len(args))] {
				if strings.Contains(n, a) {
					match = true
				}
			}
			if !match {
				continue
			}
			fn := w.funcOf(n)
			if fn == nil {
				fmt.Printf("UNBOUND %s\n", n)
				continue
			}
			vc, err := w.verifyFunction(fn, c)
			if err != nil {
				fmt.Printf("GENERROR %v\n", err)
				continue
			}
			obls = append(obls, vc.obls...)
		}
		for _, rp := range w.refinementPairs() {
			name := "refine:" + rp.implKey + "<:" + rp.ifaceKey
			match := len(args) == 1
			for _, a := range args[1:minInt(2, len(args))] {
				if strings.Contains(name, a) {
					match = true
				}
			}
			if !match {
				continue
			}
			vc, err := w.verifyRefinement(rp)
			if err != nil {
				fmt.Printf("GENERROR %v\n", err)
				continue
			}
			obls = append(obls, vc.obls...)
		}
		for _, d := range w.lemmas() {
			match := len(args) == 1
			for _, a := range args[1:minInt(2, len(args))] {
				if strings.Contains(d.Name, a) {
					match = true
				}
			}
			if !match {
				continue
			}
			vc, err := w.lemmaVC(d)
			if err != nil {
				fmt.Printf("GENERROR %v\n", err)
				continue
			}
			obls = append(obls, vc.obls...)
		}
		sort.Slice(obls, func(i, j int) bool { return obls[i].Name < obls[j].Name })
		if args[0] == "dump" {
			for _, o := range obls {
				if len(args) > 2 && !strings.Contains(o.Name, args[2]) {
					continue
				}
				fmt.Printf("; ===== %s  [%s] %s\n; %s\n", o.Name, o.Pos, o.Kind, o.Clause)
				fmt.Println(o.script(w, o.Kind == "cover", true))
			}
			return
		}
		discharge(w, obls, dischargeOpts{workDir: *verif + "/work/dev", timeoutS: *timeout, seed: 0, jobs: 16})
		bad := 0
		for _, o := range obls {
			ok := o.Status == "unsat"
			if o.Kind == "cover" {
				ok = o.Status != "unsat"
			}
			mark := "ok  "
			if !ok {
				mark = "FAIL"
				bad++
			}
			fmt.Printf("%s %-7s %-10s %6.2fs %s   [%s] %s\n", mark, o.Status, o.Solver, o.Seconds, o.Name, o.Pos, trunc(strings.ReplaceAll(o.Clause, "\n", " "), 100))
			if !ok && verbose {
				fmt.Println("     " + strings.ReplaceAll(o.Output, "\n", "\n     "))
				var ks []string
				for k := range o.ModelVal {
					if strings.HasPrefix(k, "p_") || strings.HasPrefix(k, "lphi") || strings.HasPrefix(k, "q_") {
						ks = append(ks, k)
					}
				}
				sort.Strings(ks)
				for _, k := range ks {
					fmt.Printf("       %s = %s\n", k, o.ModelVal[k])
				}
			}
		}
		for _, n := range w.notes {
			fmt.Println("note:", n)
		}
		fmt.Printf("%d obligations, %d failed, %.1fs\n", len(obls), bad, time.Since(t0).Seconds())
		if bad > 0 {
			os.Exit(1)
		}
	default:
		usage()
	}
}

func minInt(a, b int) int {
	if a < b {
		return a
	}
	return b
}
