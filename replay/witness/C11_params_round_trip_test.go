package model

// Witness for C11 (restart and retry re-use exactly the parameter values of the run they repeat): the parameter text
// recorded in a run's status, handed back to the loader as retry and restart do, must give the same parameters —
// including values containing spaces, quotes or '='.

import (
	"os"
	"path/filepath"
	"reflect"
	"testing"

	"github.com/ErdemOzgen/blackdagger/internal/dag"
)

func TestVerifC11RecordedParamsLoadAgain(t *testing.T) {
	dir := t.TempDir()
	file := filepath.Join(dir, "w.yaml")
	if err := os.WriteFile(file, []byte("steps:\n  - name: s\n    command: \"true\"\n"), 0o600); err != nil {
		t.Fatal(err)
	}
	for _, given := range []string{
		`a b`, `"a b"`, `X="a b"`, `"x=y"`, `X="x=y"`, `"a\"b"`, `"a\""`, `X="a\""`, `X=1 "y z" W="q r"`, `"a  b" c`, `""`, `X=""`, `"it's"`,
	} {
		d1, err := dag.Load("", file, given)
		if err != nil {
			t.Errorf("%s: %v", given, err)
			continue
		}
		recorded := Params(d1.Params)
		d2, err := dag.Load("", file, recorded)
		if err != nil {
			t.Errorf("%s: recorded as %s: %v", given, recorded, err)
			continue
		}
		if !reflect.DeepEqual(d1.Params, d2.Params) {
			t.Errorf("given %s: the run had parameters %q, recorded as %s, a retry gets %q", given, d1.Params, recorded, d2.Params)
		}
	}
}

func TestVerifC11QuotedValuesKeepTheirQuotes(t *testing.T) {
	dir := t.TempDir()
	file := filepath.Join(dir, "w.yaml")
	if err := os.WriteFile(file, []byte("steps:\n  - name: s\n    command: \"true\"\n"), 0o600); err != nil {
		t.Fatal(err)
	}
	for given, want := range map[string][]string{
		`"a\""`:     {`a"`},
		`"\"a\""`:   {`"a"`},
		`X="\"a\""`: {`X="a"`},
		`"x=y"`:     {`x=y`},
		`"x=y z"`:   {`x=y z`},
	} {
		d, err := dag.Load("", file, given)
		if err != nil {
			t.Errorf("%s: %v", given, err)
			continue
		}
		if !reflect.DeepEqual(d.Params, want) {
			t.Errorf("given %s: parameters %q, want %q", given, d.Params, want)
		}
		if len(want) == 1 && want[0][0] != 'X' && os.Getenv("1") != want[0] {
			t.Errorf("given %s: $1 is %q, want %q", given, os.Getenv("1"), want[0])
		}
	}
}
