package dag

// Witnesses for C19 (listing, viewing and validating a DAG has no side effects), reproduced on the real code.

import (
	"os"
	"path/filepath"
	"testing"
)

func TestVerifC19LogDirCommandIsNotRunOnValidate(t *testing.T) {
	marker := filepath.Join(t.TempDir(), "ran")
	y := "logDir: \"`touch " + marker + "`\"\nsteps:\n  - name: a\n    command: \"true\"\n"
	if _, err := LoadYAML([]byte(y)); err != nil {
		t.Logf("LoadYAML: %v", err)
	}
	if _, err := os.Stat(marker); err == nil {
		t.Errorf("validating the definition executed the command substitution in logDir")
	}
}

func TestVerifC19PositionalParamsNotExportedOnValidate(t *testing.T) {
	os.Unsetenv("1")
	os.Unsetenv("2")
	y := "params: \"foo bar\"\nsteps:\n  - name: a\n    command: \"true\"\n"
	if _, err := LoadYAML([]byte(y)); err != nil {
		t.Fatalf("LoadYAML: %v", err)
	}
	if v, ok := os.LookupEnv("1"); ok {
		t.Errorf("validating the definition exported $1=%q into the loading process", v)
	}
}
