package scheduler

// Witness for C10 (retry re-executes exactly the unfinished part of a recorded run): a run whose process was killed
// leaves a step recorded as "running".  Retrying that record must re-execute the interrupted step and everything
// downstream of it, leave the finished step alone — and terminate.

import (
	"context"
	"path/filepath"
	"testing"
	"time"

	"github.com/ErdemOzgen/blackdagger/internal/dag"
	"github.com/ErdemOzgen/blackdagger/internal/logger"
)

func TestVerifC10RetryOfInterruptedRunTerminates(t *testing.T) {
	dir := t.TempDir()
	mk := func(name string, st NodeStatus, deps ...string) *Node {
		return &Node{data: NodeData{
			Step:  dag.Step{Name: name, Command: "true", Depends: deps},
			State: NodeState{Status: st},
		}}
	}
	done := mk("done", NodeStatusSuccess)
	interrupted := mk("interrupted", NodeStatusRunning, "done")
	after := mk("after", NodeStatusNone, "interrupted")
	g, err := NewExecutionGraphForRetry(logger.Default, done, interrupted, after)
	if err != nil {
		t.Fatal(err)
	}
	if s := interrupted.State().Status; s != NodeStatusNone {
		t.Errorf("the interrupted step is not reset for the retry: status %v", s)
	}
	if s := done.State().Status; s != NodeStatusSuccess {
		t.Errorf("the finished step lost its recorded result: status %v", s)
	}
	sc := New(&Config{LogDir: filepath.Join(dir, "logs"), ReqID: "req10"})
	ctx := dag.NewContext(context.Background(), &dag.DAG{Name: "w"}, nil, "req10", "")
	fin := make(chan error, 1)
	go func() { fin <- sc.Schedule(ctx, g, nil) }()
	select {
	case <-fin:
	case <-time.After(5 * time.Second):
		t.Fatalf("the retry does not terminate: statuses done=%v interrupted=%v after=%v",
			done.State().Status, interrupted.State().Status, after.State().Status)
	}
	for _, n := range []*Node{done, interrupted, after} {
		if s := n.State().Status; s != NodeStatusSuccess {
			t.Errorf("step %s ends the retry as %v", n.data.Step.Name, s)
		}
	}
}
