package scheduler

// Witness for C08 / C05 (the final status equals what happened to every step; a stopped run ends with no step left
// running): a repeating step is not signalled on stop and finishes its iteration; when that iteration fails the step
// must not be recorded as running (agent path: done channel) or as finished.

import (
	"context"
	"os"
	"path/filepath"
	"syscall"
	"testing"
	"time"

	"github.com/ErdemOzgen/blackdagger/internal/dag"
)

func TestVerifC08StepFailingDuringStopIsNotLeftRunning(t *testing.T) {
	for _, withDone := range []bool{false, true} {
		dir := t.TempDir()
		flag := filepath.Join(dir, "stop")
		step := dag.Step{Name: "poll", Command: "sh", Args: []string{"-c", "sleep 0.3; test ! -f " + flag},
			RepeatPolicy: dag.RepeatPolicy{Repeat: true, Interval: 100 * time.Millisecond}}
		g, err := NewExecutionGraph(nil, step)
		if err != nil {
			t.Fatal(err)
		}
		sc := New(&Config{LogDir: filepath.Join(dir, "logs"), ReqID: "req02"})
		ctx := dag.NewContext(context.Background(), &dag.DAG{Name: "w"}, nil, "req02", "")
		var done chan *Node
		if withDone {
			done = make(chan *Node, 16)
		}
		fin := make(chan error, 1)
		go func() { fin <- sc.Schedule(ctx, g, done) }()
		time.Sleep(450 * time.Millisecond) // second iteration is in flight
		os.WriteFile(flag, nil, 0o644)       // ... and will fail
		sc.Signal(g, syscall.SIGTERM, nil, true)
		select {
		case <-fin:
		case <-time.After(10 * time.Second):
			t.Fatalf("done=%v: run does not end", withDone)
		}
		st := g.Nodes()[0].State()
		t.Logf("done=%v: final step status %v, error %v, run status %v", withDone, st.Status, st.Error, sc.Status(g))
		if st.Status == NodeStatusSuccess || st.Status == NodeStatusRunning {
			t.Errorf("done=%v: the last iteration of the repeating step failed (exit 1) but the step ends as %v", withDone, st.Status)
		}
	}
}
