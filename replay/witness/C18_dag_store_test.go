package local

// Witnesses for C18 (definitions are created, saved, renamed and deleted safely), reproduced on the real code.

import (
	"bytes"
	"os"
	"os/exec"
	"path/filepath"
	"strings"
	"syscall"
	"testing"
)

func TestVerifC18RenameNeverOverwrites(t *testing.T) {
	dir := t.TempDir()
	store := NewDAGStore(&NewDAGStoreArgs{Dir: dir})
	a := []byte("steps:\n  - name: a\n    command: echo a\n")
	b := []byte("steps:\n  - name: b\n    command: echo b\n")
	if _, err := store.Create("first", a); err != nil {
		t.Fatal(err)
	}
	if _, err := store.Create("second", b); err != nil {
		t.Fatal(err)
	}
	err := store.Rename("first", "second")
	got, _ := os.ReadFile(filepath.Join(dir, "second.yaml"))
	if !bytes.Equal(got, b) {
		t.Errorf("renaming first -> second replaced the existing definition of second (rename error: %v)", err)
	}
	if err == nil {
		t.Errorf("renaming onto an existing DAG reported success")
	}
	if _, statErr := os.Stat(filepath.Join(dir, "first.yaml")); statErr != nil {
		t.Errorf("the refused rename lost the source definition: %v", statErr)
	}
}

func TestVerifC18SaveIsAllOrNothing(t *testing.T) {
	oldText := []byte("steps:\n  - name: old\n    command: echo old\n")
	newText := []byte("steps:\n  - name: new\n    command: echo " + strings.Repeat("x", 64*1024) + "\n")
	if dir := os.Getenv("VERIF_C18_CHILD_DIR"); dir != "" {
		// child: a file-size limit makes the write of the new text fail part-way, as a full disk or a crash would
		_ = syscall.Setrlimit(syscall.RLIMIT_FSIZE, &syscall.Rlimit{Cur: 4096, Max: 4096})
		store := NewDAGStore(&NewDAGStoreArgs{Dir: dir})
		_ = store.UpdateSpec("a", newText)
		return
	}
	dir := t.TempDir()
	store := NewDAGStore(&NewDAGStoreArgs{Dir: dir})
	if _, err := store.Create("a", oldText); err != nil {
		t.Fatal(err)
	}
	cmd := exec.Command(os.Args[0], "-test.run=^TestVerifC18SaveIsAllOrNothing$")
	cmd.Env = append(os.Environ(), "VERIF_C18_CHILD_DIR="+dir)
	out, err := cmd.CombinedOutput()
	t.Logf("child: err=%v %s", err, bytes.TrimSpace(out))
	got, rerr := os.ReadFile(filepath.Join(dir, "a.yaml"))
	if rerr != nil {
		t.Fatalf("definition unreadable after an interrupted save: %v", rerr)
	}
	if !bytes.Equal(got, oldText) && !bytes.Equal(got, newText) {
		t.Errorf("after an interrupted save the definition holds neither the complete old nor the complete new text (%d bytes, old %d, new %d)", len(got), len(oldText), len(newText))
	}
}
