package scheduler

// Witness for the C09 finding "an entry whose cron expression never matches (Next == zero time) is invoked on
// every tick".  Injected with go test -overlay; uses the package's own parser and run().

import (
	"testing"
	"time"

	"github.com/ErdemOzgen/blackdagger/internal/test"
	"github.com/robfig/cron/v3"
)

func TestVerifWitnessC09ZeroNext(t *testing.T) {
	p := cron.NewParser(cron.Minute | cron.Hour | cron.Dom | cron.Month | cron.Dow)
	sched, err := p.Parse("0 0 30 2 *") // 30 February: parses, never matches
	if err != nil {
		t.Skip("expression rejected by the parser")
	}
	tick := time.Date(2020, 1, 1, 0, 0, 0, 0, time.UTC)
	next := sched.Next(tick.Add(-time.Second))
	if !next.IsZero() {
		t.Fatalf("expected the zero time from Next, got %v", next)
	}
	job := &mockJob{}
	er := &mockEntryReader{Entries: []*entry{{Job: job, Next: next, Logger: test.NewLogger()}}}
	s := newScheduler(newSchedulerArgs{EntryReader: er, LogDir: t.TempDir(), Logger: test.NewLogger()})
	s.run(tick)
	time.Sleep(200 * time.Millisecond)
	if n := job.RunCount.Load(); n != 0 {
		t.Fatalf("VIOLATION: entry with an unsatisfiable schedule was invoked %d time(s) at %v", n, tick)
	}
}
