package dag

// Witnesses for C13 (any file content is rejected with an error or yields a runnable DAG): inputs that crashed
// the loader or were accepted with nothing to execute, reproduced on the real code through `go test -overlay`.

import (
	"fmt"
	"testing"
)

func verifLoadNoPanic(t *testing.T, name, yaml string) (d *DAG, err error) {
	t.Helper()
	defer func() {
		if r := recover(); r != nil {
			t.Errorf("%s: LoadYAML panicked: %v", name, r)
			err = fmt.Errorf("panic")
		}
	}()
	return LoadYAML([]byte(yaml))
}

func TestVerifC13UnknownScheduleKey(t *testing.T) {
	_, err := verifLoadNoPanic(t, "unknown schedule key", "schedule:\n  foo: \"* * * * *\"\nsteps:\n  - name: a\n    command: \"true\"\n")
	if err == nil {
		t.Errorf("a schedule map with an unknown key was accepted")
	}
}

func TestVerifC13NullListEntries(t *testing.T) {
	for name, y := range map[string]string{
		"null step":              "steps:\n  - ~\n",
		"null precondition":      "preconditions:\n  - ~\nsteps:\n  - name: a\n    command: \"true\"\n",
		"null step precondition": "steps:\n  - name: a\n    command: \"true\"\n    preconditions:\n      - ~\n",
		"null function":          "functions:\n  - ~\nsteps:\n  - name: a\n    command: \"true\"\n",
		"null function and call": "functions:\n  - ~\nsteps:\n  - name: a\n    call:\n      function: f\n      args: {}\n",
	} {
		if _, err := verifLoadNoPanic(t, name, y); err == nil {
			t.Errorf("%s: accepted", name)
		}
	}
}

func TestVerifC13NothingToExecute(t *testing.T) {
	for name, y := range map[string]string{
		"empty command list":   "steps:\n  - name: a\n    command: []\n",
		"empty string in list": "steps:\n  - name: a\n    command: [\"\"]\n",
		"empty executor name":  "steps:\n  - name: a\n    executor: \"\"\n",
		"empty executor map":   "steps:\n  - name: a\n    executor: {}\n",
	} {
		d, err := verifLoadNoPanic(t, name, y)
		if err == nil && d != nil && len(d.Steps) == 1 && d.Steps[0].Command == "" && d.Steps[0].ExecutorConfig.Type == "" && d.Steps[0].SubWorkflow == nil {
			t.Errorf("%s: accepted although the step has nothing to execute: %+v", name, d.Steps[0])
		}
	}
}

func TestVerifC13InvalidRegexpCondition(t *testing.T) {
	defer func() {
		if r := recover(); r != nil {
			t.Errorf("EvalConditions panicked on an invalid re: pattern: %v", r)
		}
	}()
	_ = EvalConditions([]Condition{{Condition: "x", Expected: "re:["}})
}
