package agent

// Witness for C05 (processes that ignore the stop signal are force-killed once the DAG's maximum clean-up time has
// elapsed, so the run ends within that bound): a single step that ignores SIGTERM, stopped through the agent.

import (
	"context"
	"os"
	"path/filepath"
	"syscall"
	"testing"
	"time"

	"github.com/ErdemOzgen/blackdagger/internal/client"
	"github.com/ErdemOzgen/blackdagger/internal/dag"
	"github.com/ErdemOzgen/blackdagger/internal/logger"
	dsclient "github.com/ErdemOzgen/blackdagger/internal/persistence/client"
)

func TestVerifC05AgentForceKillsAStepThatIgnoresTheStop(t *testing.T) {
	dir := t.TempDir()
	dags := filepath.Join(dir, "dags")
	os.MkdirAll(dags, 0o755)
	file := filepath.Join(dags, "stubborn.yaml")
	spec := "maxCleanUpTimeSec: 1\nsteps:\n  - name: stubborn\n    command: sh -c \"trap '' TERM; sleep 25\"\n"
	if err := os.WriteFile(file, []byte(spec), 0o644); err != nil {
		t.Fatal(err)
	}
	os.Setenv("HOME", dir)
	workflow, err := dag.Load("", file, "")
	if err != nil {
		t.Fatal(err)
	}
	ds := dsclient.NewDataStores(dags, filepath.Join(dir, "data"), filepath.Join(dir, "suspend"), dsclient.DataStoreOptions{})
	cli := client.New(ds, "", dir, logger.Default)
	agt := New("req-c05", workflow, logger.Default, filepath.Join(dir, "logs"), filepath.Join(dir, "logs", "agent.log"), cli, ds, &Options{})
	fin := make(chan error, 1)
	go func() { fin <- agt.Run(context.Background()) }()
	time.Sleep(1 * time.Second)
	start := time.Now()
	go agt.Signal(syscall.SIGTERM)
	select {
	case <-fin:
	case <-time.After(15 * time.Second):
		t.Fatalf("the run is still going %v after the stop request although the clean-up time is 1 s: the step was never force-killed", time.Since(start).Round(time.Second))
	}
	t.Logf("run ended %v after the stop request", time.Since(start).Round(100*time.Millisecond))
}
