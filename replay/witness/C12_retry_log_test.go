package scheduler

// Witness for C12 (a finished step's log holds everything the step printed): with stdout: configured, the output
// of the last attempt of a retried step must be in the log file named in its status and in the stdout file.

import (
	"context"
	"os"
	"path/filepath"
	"strings"
	"testing"
	"time"

	"github.com/ErdemOzgen/blackdagger/internal/dag"
)

func TestVerifC12LastAttemptIsFlushed(t *testing.T) {
	dir := t.TempDir()
	counter := filepath.Join(dir, "count")
	stdout := filepath.Join(dir, "step.out")
	script := "n=$(cat " + counter + " 2>/dev/null || echo 0); n=$((n+1)); echo $n > " + counter + "; echo attempt-$n; [ $n -ge 2 ]"
	step := dag.Step{
		Name: "flaky", Command: "sh", Args: []string{"-c", script}, Stdout: stdout,
		RetryPolicy: &dag.RetryPolicy{Limit: 1, Interval: 10 * time.Millisecond},
	}
	g, err := NewExecutionGraph(nil, step)
	if err != nil {
		t.Fatal(err)
	}
	sc := New(&Config{LogDir: filepath.Join(dir, "logs"), ReqID: "req12345"})
	ctx := dag.NewContext(context.Background(), &dag.DAG{Name: "w"}, nil, "req12345", "")
	_ = sc.Schedule(ctx, g, nil)
	st := g.Nodes()[0].State()
	if st.Status != NodeStatusSuccess || st.RetryCount != 1 {
		t.Fatalf("unexpected outcome: status=%v retries=%d err=%v", st.Status, st.RetryCount, st.Error)
	}
	logb, _ := os.ReadFile(st.Log)
	if !strings.Contains(string(logb), "attempt-2") {
		t.Errorf("the log named in the final status (%s) lacks the last attempt's output: %q", st.Log, logb)
	}
	outb, _ := os.ReadFile(stdout)
	if !strings.Contains(string(outb), "attempt-2") {
		t.Errorf("the stdout file lacks the last attempt's output: %q", outb)
	}
}
