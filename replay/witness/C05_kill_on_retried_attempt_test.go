package scheduler

// Witness for C05 (stop always brings a run to an end), retried steps: the second attempt of a step with a
// retryPolicy ignores the stop signal; the SIGKILL that the agent sends through Scheduler.Signal once the maximum
// clean-up time has elapsed must still reach it.  (Before the repair the step kept the finishing time of its first
// attempt, which made it look "not stopping any more": the resend and the SIGKILL were never delivered and
// Scheduler.Signal reported the run as stopped while the process was alive.)

import (
	"context"
	"os"
	"path/filepath"
	"syscall"
	"testing"
	"time"

	"github.com/ErdemOzgen/blackdagger/internal/dag"
)

func TestVerifC05KillReachesARetriedAttemptThatIgnoresTheStopSignal(t *testing.T) {
	dir := t.TempDir()
	marker := filepath.Join(dir, "first-attempt-done")
	// first attempt: leave a marker and fail at once; second attempt: ignore TERM and sleep
	script := "if [ ! -e " + marker + " ]; then touch " + marker + "; exit 1; fi; trap '' TERM; sleep 20"
	step := dag.Step{Name: "stubborn", Command: "sh", Args: []string{"-c", script},
		RetryPolicy: &dag.RetryPolicy{Limit: 1, Interval: 100 * time.Millisecond}}
	g, err := NewExecutionGraph(nil, step)
	if err != nil {
		t.Fatal(err)
	}
	sc := New(&Config{LogDir: filepath.Join(dir, "logs"), ReqID: "req05r"})
	ctx := dag.NewContext(context.Background(), &dag.DAG{Name: "w"}, nil, "req05r", "")
	fin := make(chan error, 1)
	start := time.Now()
	go func() { fin <- sc.Schedule(ctx, g, nil) }()
	// wait until the second attempt is running
	deadline := time.Now().Add(5 * time.Second)
	for {
		_, statErr := os.Stat(marker)
		n := g.Nodes()[0]
		if statErr == nil && n.State().Status == NodeStatusRunning && n.State().RetryCount == 1 {
			break
		}
		if time.Now().After(deadline) {
			t.Fatalf("the second attempt did not start (test set-up): status %v retries %d", n.State().Status, n.State().RetryCount)
		}
		time.Sleep(20 * time.Millisecond)
	}
	time.Sleep(300 * time.Millisecond)
	sc.Signal(g, syscall.SIGTERM, nil, true) // the stop request
	time.Sleep(500 * time.Millisecond)
	select {
	case <-fin:
		t.Fatalf("the step did not ignore SIGTERM (test set-up)")
	default:
	}
	sc.Signal(g, syscall.SIGKILL, nil, false) // what Agent.signal sends when MaxCleanUpTime has elapsed
	select {
	case <-fin:
	case <-time.After(5 * time.Second):
		t.Fatalf("SIGKILL was not delivered to the retried attempt: the run is still going %v after the start (step status %v)",
			time.Since(start).Round(time.Millisecond), g.Nodes()[0].State().Status)
	}
	if s := sc.Status(g); s != StatusCancel {
		t.Errorf("the run ends as %v, want canceled", s)
	}
}
