package scheduler

// Witness for C05 (stop always brings a run to an end): a step that ignores the stop signal must be force-killed by
// the SIGKILL that the agent sends through Scheduler.Signal once the maximum clean-up time has elapsed.

import (
	"context"
	"path/filepath"
	"syscall"
	"testing"
	"time"

	"github.com/ErdemOzgen/blackdagger/internal/dag"
)

func TestVerifC05KillReachesAStepThatIgnoredTheStopSignal(t *testing.T) {
	dir := t.TempDir()
	step := dag.Step{Name: "stubborn", Command: "sh", Args: []string{"-c", "trap '' TERM; sleep 20"}}
	g, err := NewExecutionGraph(nil, step)
	if err != nil {
		t.Fatal(err)
	}
	sc := New(&Config{LogDir: filepath.Join(dir, "logs"), ReqID: "req05"})
	ctx := dag.NewContext(context.Background(), &dag.DAG{Name: "w"}, nil, "req05", "")
	fin := make(chan error, 1)
	start := time.Now()
	go func() { fin <- sc.Schedule(ctx, g, nil) }()
	time.Sleep(500 * time.Millisecond)
	sc.Signal(g, syscall.SIGTERM, nil, true) // the stop request
	time.Sleep(500 * time.Millisecond)
	select {
	case <-fin:
		t.Fatalf("the step did not ignore SIGTERM (test set-up)")
	default:
	}
	sc.Signal(g, syscall.SIGKILL, nil, false) // what Agent.signal sends when MaxCleanUpTime has elapsed
	select {
	case <-fin:
	case <-time.After(5 * time.Second):
		t.Fatalf("SIGKILL was not delivered: the run is still going %v after the stop request (step status %v)",
			time.Since(start).Round(time.Millisecond), g.Nodes()[0].State().Status)
	}
	if s := sc.Status(g); s != StatusCancel {
		t.Errorf("the run ends as %v, want canceled", s)
	}
}
