package dag

// Sampled audit of the assumed library contracts that are executable (thorough tier; DESIGN §2.10).  Each assumed
// statement in /verif/contracts/assumed/*.spec that can be run is compared with the real library on inputs drawn
// from a generator seeded with VERIF_SEED.  A disagreement means the ASSUMED CONTRACT is wrong (broken machinery),
// not that a property is violated.  Injected with `go test -overlay` into package dag (it has the cron parser).

import (
	"bytes"
	"crypto/subtle"
	"encoding/base64"
	"encoding/json"
	"fmt"
	"io"
	"math/rand"
	"net/http"
	"os"
	"path/filepath"
	"sort"
	"strconv"
	"strings"
	"sync"
	"testing"
	"time"

	"golang.org/x/sys/unix"
)

type shortWriter struct{ n int }

func (s *shortWriter) Write(p []byte) (int, error) {
	if len(p) > s.n {
		return s.n, nil
	}
	return len(p), nil
}

func TestVerifAuditAssumedContracts(t *testing.T) {
	seed, _ := strconv.ParseInt(os.Getenv("VERIF_SEED"), 10, 64)
	rng := rand.New(rand.NewSource(seed + 1))
	alphabet := []string{"a", "b", "/", ".", " ", "\"", "=", "-", "x", "yaml", "..", ""}
	str := func(max int) string {
		var sb strings.Builder
		for i := rng.Intn(max + 1); i > 0; i-- {
			sb.WriteString(alphabet[rng.Intn(len(alphabet))])
		}
		return sb.String()
	}
	checked, failed := 0, 0
	fail := func(name, format string, a ...any) {
		failed++
		if failed <= 10 {
			fmt.Printf("VAUDIT-FAIL %s :: %s\n", name, fmt.Sprintf(format, a...))
		}
	}
	const N = 3000
	for i := 0; i < N; i++ {
		a, b := str(4), str(4)
		// strings.spec
		checked++
		if r := filepath.Join(a, b); (a != "" || b != "") && r == "" {
			fail("filepath.Join#nonempty", "Join(%q,%q) is empty", a, b)
		}
		checked++
		if r := strings.TrimSuffix(a, b); strings.HasSuffix(a, b) && a != r+b || !strings.HasSuffix(a, b) && r != a {
			fail("strings.TrimSuffix", "TrimSuffix(%q,%q)=%q", a, b, r)
		}
		checked++
		if r := strings.TrimPrefix(a, b); strings.HasPrefix(a, b) && a != b+r || !strings.HasPrefix(a, b) && r != a {
			fail("strings.TrimPrefix", "TrimPrefix(%q,%q)=%q", a, b, r)
		}
		checked++
		if r := strings.Split(a, b); b != "" && len(r) < 1 {
			fail("strings.Split#has_a_piece", "Split(%q,%q) has no piece", a, b)
		}
		if sep := str(1); len(sep) == 1 && !strings.Contains(a, sep) && !strings.Contains(b, sep) {
			checked++
			if r := strings.Split(a+sep+b, sep); len(r) != 2 || r[0] != a || r[1] != b {
				fail("strings.Split#two", "Split(%q,%q)=%q", a+sep+b, sep, r)
			}
		}
		checked++
		n := rng.Intn(2001) - 1000
		want := strconv.FormatInt(int64(n), 10)
		if strconv.Itoa(n) != want {
			fail("strconv.Itoa", "Itoa(%d)", n)
		}
		// native model of fmt.Sprintf with %s / %d / %v verbs = concatenation
		checked++
		if r := fmt.Sprintf("%s.%s*%d-%v", a, b, n, a); r != a+"."+b+"*"+want+"-"+a {
			fail("fmt.Sprintf#concatenation", "%q", r)
		}
		// time.spec: instants are integers (ns); Truncate rounds down to a multiple of d
		checked++
		ts := time.Unix(int64(rng.Intn(2_000_000_000)), int64(rng.Intn(1_000_000_000))).UTC()
		d := time.Duration(rng.Intn(7200)+1) * time.Second
		if d == time.Minute || rng.Intn(2) == 0 {
			d = time.Minute
		}
		if r := ts.Truncate(d); r.After(ts) || ts.Sub(r) >= d || (d == time.Minute && (r.Second() != 0 || r.Nanosecond() != 0)) {
			fail("time.Truncate", "%v.Truncate(%v)=%v", ts, d, r)
		}
		checked++
		u := ts.Add(time.Duration(rng.Intn(2001)-1000) * time.Millisecond)
		if ts.After(u) != (ts.UnixNano() > u.UnixNano()) || ts.Before(u) != (ts.UnixNano() < u.UnixNano()) || ts.Equal(u) != (ts.UnixNano() == u.UnixNano()) || u.Sub(ts) != time.Duration(u.UnixNano()-ts.UnixNano()) {
			fail("time.After/Before/Equal/Sub", "%v %v", ts, u)
		}
		// http.spec
		checked++
		x, y := []byte(a), []byte(b)
		if r := subtle.ConstantTimeCompare(x, y); (r == 1) != (a == b) || (r != 0 && r != 1) {
			fail("subtle.ConstantTimeCompare", "%q %q -> %d", a, b, r)
		}
		checked++
		req, _ := http.NewRequest("GET", "http://h/", nil)
		req.Header.Set("Authorization", "Basic "+base64.StdEncoding.EncodeToString([]byte(a+":"+b)))
		if usr, pw, ok := req.BasicAuth(); !strings.Contains(a, ":") && (!ok || usr != a || pw != b) {
			fail("Request.BasicAuth", "%q:%q -> %q %q %v", a, b, usr, pw, ok)
		}
		// fs.spec: json.Marshal output holds no line break
		checked++
		if js, err := json.Marshal(map[string]any{"k": a + "\n" + b, "n": n}); err != nil || bytes.ContainsAny(js, "\n\r") {
			fail("json.Marshal#no_line_break", "%q", js)
		}
	}
	// cron.spec: Next(t) is zero or the least matching whole minute after t (checked minute by minute)
	loc := time.UTC
	specs := []string{"* * * * *", "*/5 * * * *", "0 * * * *", "30 4 * * *", "0 0 1 * *", "15 10 * * 1", "0 0 30 2 *", "59 23 31 12 *", "*/7 */3 * * *", "0 12 * * 0,6"}
	for _, sp := range specs {
		sched, err := cronParser.Parse(sp)
		if err != nil {
			fail("cron.Parse", "%s: %v", sp, err)
			continue
		}
		for k := 0; k < 40; k++ {
			checked++
			t0 := time.Date(2024, time.Month(rng.Intn(12)+1), rng.Intn(28)+1, rng.Intn(24), rng.Intn(60), rng.Intn(60), rng.Intn(1e9), loc)
			nx := sched.Next(t0)
			if nx.IsZero() {
				// no match within the library's five-year horizon: spot-check a day
				for m := t0.Truncate(time.Minute).Add(time.Minute); m.Before(t0.Add(24 * time.Hour)); m = m.Add(time.Minute) {
					if sched.Next(m.Add(-time.Second)).Equal(m) {
						fail("cron.Next#zero_means_no_match", "%s after %v: zero, but %v matches", sp, t0, m)
						break
					}
				}
				continue
			}
			if !nx.After(t0) || nx.Second() != 0 || nx.Nanosecond() != 0 {
				fail("cron.Next#later_whole_minute", "%s after %v = %v", sp, t0, nx)
			}
			// least: no whole minute strictly between t0 and nx is itself a Next of the instant just before it
			steps := 0
			for m := t0.Truncate(time.Minute).Add(time.Minute); m.Before(nx) && steps < 3000; m, steps = m.Add(time.Minute), steps+1 {
				if sched.Next(m.Add(-time.Nanosecond)).Equal(m) {
					fail("cron.Next#least", "%s after %v = %v, but %v matches", sp, t0, nx, m)
					break
				}
			}
			// matches(next): asking again from just before it gives it again
			if !sched.Next(nx.Add(-time.Nanosecond)).Equal(nx) {
				fail("cron.Next#matches_itself", "%s %v", sp, nx)
			}
		}
	}
	// os_io.spec / fs.spec
	dir := t.TempDir()
	for k := 0; k < 20; k++ {
		checked++
		name := filepath.Join(dir, fmt.Sprintf("f%d.log", k))
		f, err := os.Create(name)
		if err != nil || f.Name() != name {
			fail("os.Create#file_name", "%v %v", name, err)
		}
		f.Close()
		f2, err := os.OpenFile(name, os.O_APPEND|os.O_WRONLY, 0o644)
		if err != nil || f2.Name() != name {
			fail("os.OpenFile#file_name", "%v %v", name, err)
		}
		f2.Close()
	}
	// io.MultiWriter: every destination gets every byte; a destination that accepts fewer bytes stops the write with
	// io.ErrShortWrite before the later destinations see it
	for k := 0; k < 50; k++ {
		checked++
		var b1, b2, b3 bytes.Buffer
		payload := []byte(strings.Repeat("x", rng.Intn(100)+1))
		w := io.MultiWriter(&b1, io.MultiWriter(&b2, &b3))
		if n, err := w.Write(payload); err != nil || n != len(payload) || b1.Len() != len(payload) || b2.Len() != len(payload) || b3.Len() != len(payload) {
			fail("io.MultiWriter#forwards_to_every_destination", "%d %v", n, err)
		}
		var c1, c2 bytes.Buffer
		w2 := io.MultiWriter(&c1, &shortWriter{n: 0}, &c2)
		if _, err := w2.Write(payload); err != io.ErrShortWrite || c2.Len() != 0 {
			fail("io.MultiWriter#short_write_stops_the_copy", "%v %d", err, c2.Len())
		}
	}
	// sort.SliceStable with a strict order on a key sorts by that key and keeps equal keys in order
	for k := 0; k < 100; k++ {
		checked++
		type e struct{ key, pos int }
		xs := make([]e, rng.Intn(12))
		for i := range xs {
			xs[i] = e{rng.Intn(4), i}
		}
		sort.SliceStable(xs, func(i, j int) bool { return xs[i].key < xs[j].key })
		for i := 1; i < len(xs); i++ {
			if xs[i-1].key > xs[i].key || (xs[i-1].key == xs[i].key && xs[i-1].pos > xs[i].pos) {
				fail("sort.SliceStable", "%v", xs)
				break
			}
		}
	}
	// filepath.Glob returns existing paths that match the pattern, sorted
	for _, n := range []string{"a.1.dat", "a.2.dat", "b.1.dat", "a.1.txt"} {
		os.WriteFile(filepath.Join(dir, n), nil, 0o644)
	}
	checked++
	ms, err := filepath.Glob(filepath.Join(dir, "a.*.dat"))
	if err != nil || len(ms) != 2 || !sort.StringsAreSorted(ms) {
		fail("filepath.Glob", "%v %v", ms, err)
	}
	for _, m := range ms {
		if ok, _ := filepath.Match(filepath.Join(dir, "a.*.dat"), m); !ok {
			fail("filepath.Glob#only_matches", "%v", m)
		}
	}
	// sync.Map: Range visits what was stored; Store under an existing key replaces
	checked++
	var sm sync.Map
	sm.Store("k", "k=1")
	sm.Store("k", "k=2")
	sm.Store("j", "j=3")
	seen := map[any]any{}
	sm.Range(func(k, v any) bool { seen[k] = v; return true })
	if len(seen) != 2 || seen["k"] != "k=2" || seen["j"] != "j=3" {
		fail("sync.Map", "%v", seen)
	}
	// unix.SignalNum names the signals the contracts mention
	checked++
	if unix.SignalNum("SIGTERM") != 15 || unix.SignalNum("SIGKILL") != 9 || unix.SignalNum("SIGINT") != 2 || unix.SignalNum("NOPE") != 0 {
		fail("unix.SignalNum", "%v %v", unix.SignalNum("SIGTERM"), unix.SignalNum("NOPE"))
	}
	// the zero time is instant 0 of the model: IsZero, and Truncate keeps it
	checked++
	var zero time.Time
	if !zero.IsZero() || !zero.Truncate(time.Minute).IsZero() || zero.After(time.Unix(1, 0)) {
		fail("time.zero", "")
	}
	fmt.Printf("VAUDIT checked=%d failed=%d seed=%d\n", checked, failed, seed)
}
