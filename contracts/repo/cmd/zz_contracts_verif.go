//go:build verif

// Contracts for package cmd (comment-only file; no executable code).

package cmd

// removeQuotes strips exactly one pair of surrounding double quotes: what client.Start wrapped around the
// parameters comes off again, whatever the parameters contain.
//@ fn removeQuotes(s) (r)
//@   props C11 C20
//@   safety
//@   ensures [C11 one_pair_of_quotes_is_removed] len(s) > 1 && s[0] == 34 && s[len(s) - 1] == 34 ==> r == substr(s, 1, len(s) - 2)
//@   ensures [C11 unquoted_text_is_kept] !(len(s) > 1 && s[0] == 34 && s[len(s) - 1] == 34) ==> r == s
//@ lemma quoting_round_trip(p string) props C11 C20:
//@      substr("\"" + p + "\"", 1, len("\"" + p + "\"") - 2) == p
