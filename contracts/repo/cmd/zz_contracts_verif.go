//go:build verif

// Contracts for package cmd (comment-only file; no executable code).

package cmd

// removeQuotes strips exactly one pair of surrounding double quotes: what client.Start wrapped around the
// parameters comes off again, whatever the parameters contain.
//@ fn removeQuotes(s) (r)
//@   props C11 C20
//@   safety
//@   ensures [C11 one_pair_of_quotes_is_removed] len(s) > 1 && s[0] == 34 && s[len(s) - 1] == 34 ==> r == substr(s, 1, len(s) - 2)
//@   ensures [C11 unquoted_text_is_kept] !(len(s) > 1 && s[0] == 34 && s[len(s) - 1] == 34) ==> r == s
//@ lemma quoting_round_trip(p string) props C11 C20:
//@      substr("\"" + p + "\"", 1, len("\"" + p + "\"") - 2) == p

// retry (C10, C11): the run being retried is looked up by the given request id in the history of this DAG file; the
// DAG is loaded again with exactly the parameter text recorded for that run; the agent gets a newly generated request
// id and the recorded status as its retry target.
//@ fn newClient(cfg, ds, lg) (c)
//@   props C10 C11
//@   modifies heap(alloc)
//@   nonnilresult
//@ fn newDataStores(cfg) (ds)
//@   props C10 C11
//@   trusted
//@   modifies heap(alloc), ghost fs.*, ghost eff.fs, ghost obs.stat*, ghost obs.mkdir*
//@   nonnilresult
// listenSignals only starts the goroutine that forwards SIGINT/SIGTERM (or the end of the context) to the agent.
//@ fn listenSignals(ctx, listener)
//@   props C05 C10 C11
//@   trusted
//@   noeffect
//@ fn generateRequestID() (id, err)
//@   props C10 C11
//@   modifies heap(alloc)
//@ fn retryCmd$1(cmd, args)
//@   props C10 C11
//@   modifies *
//@   expect calls dag.Load >= 1
//@   expect calls agent.New >= 1
//@   expect calls (persistence.HistoryStore).FindByRequestID >= 1
//@   assert before (persistence.HistoryStore).FindByRequestID [C10 retried_run_is_the_one_asked_for] arg1 == absoluteFilePath && arg2 == requestID
//@   assert before dag.Load [C10,C11 retry_uses_the_recorded_parameters] arg1 == absoluteFilePath && arg2 == status.Status.Params
//@   assert before agent.New [C10 retry_is_a_new_run_of_the_recorded_status] arg0 == newRequestID && arg1 == workflow && arg7 != nil && arg7.RetryTarget == status.Status

// start (C11): the DAG is loaded with the text given to --params, with the one pair of quotes that client.Start put
// around it removed and nothing else changed.
//@ fn startCmd$1(cmd, args)
//@   props C11
//@   modifies *
//@   expect calls dag.Load >= 1
//@   expect calls removeQuotes >= 1
//@   assert before dag.Load [C11 start_uses_the_given_parameters] arg1 == args[0] && arg2 == ite(len(params) > 1 && params[0] == 34 && params[len(params) - 1] == 34, substr(params, 1, len(params) - 2), params)

// restart (C11): the parameters of the new run are the recorded parameter text of the latest run of this DAG.
//@ ghost obs.prev_params string
//@ fn getPreviousExecutionParams(e, workflow) (r, err)
//@   props C11
//@   requires e != nil
//@   modifies heap(alloc), ghost obs.prev_params, ghost obs.latest, ghost obs.latest_err
//@   records obs.prev_params = r
//@   ensures [C11 previous_parameters_are_the_latest_run_s] err == nil ==> (obs.latest_err == nil && r == obs.latest.Params)
//@ fn restartCmd$1(cmd, args)
//@   props C11
//@   modifies *
//@   expect calls getPreviousExecutionParams >= 1
//@   assert before dag.Load#1 [C11 restart_uses_the_previous_run_s_parameters] arg1 == specFilePath && arg2 == obs.prev_params
