//go:build verif

// Contracts for package persistence (comment-only file; no executable code).
// Interface-level contracts of the stores; the JSON-file implementation is specified in package jsondb.

package persistence

// History effects of the thread that calls them: how many, and in which order relative to the step scheduler.
//@ ghost hist.opens int
//@ ghost hist.writes int
//@ ghost hist.closes int
//@ ghost hist.removeolds int
//@ ghost hist.last_write_sched int     // value of eff.sched when the last Write was issued
//@ ghost hist.writes_at_close int      // value of hist.writes when Close was called

//@ fn (HistoryStore).Open(hs, dagFile, t, requestID) (err)
//@   props C03 C08 C14 C16
//@   trusted
//@   modifies ghost eff.hist, ghost hist.opens
//@   ensures eff.hist == old(eff.hist) + 1 && hist.opens == old(hist.opens) + 1

//@ fn (HistoryStore).Write(hs, status) (err)
//@   props C03 C08 C14 C16
//@   trusted
//@   modifies ghost eff.hist, ghost hist.writes, ghost hist.last_write_sched
//@   ensures eff.hist == old(eff.hist) + 1 && hist.writes == old(hist.writes) + 1 && hist.last_write_sched == eff.sched

//@ fn (HistoryStore).Close(hs) (err)
//@   props C03 C08 C14 C16
//@   trusted
//@   modifies ghost eff.hist, ghost hist.closes, ghost hist.writes_at_close
//@   ensures eff.hist == old(eff.hist) + 1 && hist.closes == old(hist.closes) + 1 && hist.writes_at_close == hist.writes

//@ fn (HistoryStore).RemoveOld(hs, dagFile, retentionDays) (err)
//@   props C03 C08 C14 C16
//@   trusted
//@   modifies ghost eff.hist, ghost hist.removeolds
//@   ensures eff.hist == old(eff.hist) + 1 && hist.removeolds == old(hist.removeolds) + 1

//@ fn (DataStores).HistoryStore(ds) (hs)
//@   props C03 C08 C14 C16
//@   trusted
//@   noeffect
//@   nonnilresult

//@ fn (DataStores).DAGStore(ds) (r)
//@   props C03 C08 C14 C16
//@   trusted
//@   noeffect

//@ fn (HistoryStore).ReadStatusToday(hs, dagFile) (st, err)
//@   props C08 C09 C20
//@   trusted
//@   modifies heap(alloc), ghost obs.today_err, ghost obs.today
//@   ensures obs.today_err == err && obs.today == st
//@   ensures [assumed_cache_holds_only_loaded_statuses] err == nil ==> st != nil

// ---------------------------------------------------------------------------------------------
// Interface contracts of the DAG store and of the history operations used when a DAG is renamed or deleted
// (C18).  A global sequence number orders the store operations; each records its arguments.
//@ ghost st.seq int
//@ ghost dagst.find_calls int
//@ ghost dagst.find_name string
//@ ghost dagst.find_dag *dag.DAG
//@ ghost dagst.find_err error
//@ ghost dagst.renames int
//@ ghost dagst.rename_seq int
//@ ghost dagst.rename_old string
//@ ghost dagst.rename_new string
//@ ghost dagst.rename_err error
//@ ghost dagst.creates int
//@ ghost dagst.create_name string
//@ ghost dagst.deletes int
//@ ghost dagst.delete_seq int
//@ ghost dagst.delete_name string
//@ ghost dagst.updates int
//@ ghost dagst.update_name string
//@ ghost dagst.update_spec []byte
//@ ghost histst.renames int
//@ ghost histst.rename_seq int
//@ ghost histst.rename_old string
//@ ghost histst.rename_new string
//@ ghost histst.removealls int
//@ ghost histst.removeall_seq int
//@ ghost histst.removeall_loc string
//@ ghost histst.removeall_err error

//@ fn (DAGStore).Find(s, name) (d, err)
//@   props C18 C20
//@   trusted
//@   modifies heap(alloc), ghost dagst.find_calls, ghost dagst.find_name, ghost dagst.find_dag, ghost dagst.find_err
//@   ensures dagst.find_calls == old(dagst.find_calls) + 1 && dagst.find_name == name && dagst.find_dag == d && dagst.find_err == err
//@   ensures err == nil ==> d != nil
//@ fn (DAGStore).Rename(s, oldID, newID) (err)
//@   props C18 C20
//@   trusted
//@   modifies ghost st.seq, ghost dagst.renames, ghost dagst.rename_seq, ghost dagst.rename_old, ghost dagst.rename_new, ghost dagst.rename_err
//@   ensures st.seq == old(st.seq) + 1 && dagst.renames == old(dagst.renames) + 1 && dagst.rename_seq == st.seq && dagst.rename_old == oldID && dagst.rename_new == newID && dagst.rename_err == err
//@ fn (DAGStore).Create(s, name, spec) (id, err)
//@   props C18 C20
//@   trusted
//@   modifies ghost st.seq, ghost dagst.creates, ghost dagst.create_name
//@   ensures st.seq == old(st.seq) + 1 && dagst.creates == old(dagst.creates) + 1 && dagst.create_name == name
//@ fn (DAGStore).Delete(s, name) (err)
//@   props C18 C20
//@   trusted
//@   modifies ghost st.seq, ghost dagst.deletes, ghost dagst.delete_seq, ghost dagst.delete_name
//@   ensures st.seq == old(st.seq) + 1 && dagst.deletes == old(dagst.deletes) + 1 && dagst.delete_seq == st.seq && dagst.delete_name == name
//@ fn (DAGStore).UpdateSpec(s, name, spec) (err)
//@   props C18 C20
//@   trusted
//@   modifies ghost st.seq, ghost dagst.updates, ghost dagst.update_name, ghost dagst.update_spec
//@   ensures st.seq == old(st.seq) + 1 && dagst.updates == old(dagst.updates) + 1 && dagst.update_name == name && dagst.update_spec == spec
//@ fn (DAGStore).GetSpec(s, name) (r, err)
//@   props C18
//@   trusted
//@   noeffect
//@ fn (HistoryStore).Rename(hs, oldName, newName) (err)
//@   props C18
//@   trusted
//@   modifies ghost st.seq, ghost eff.hist, ghost histst.renames, ghost histst.rename_seq, ghost histst.rename_old, ghost histst.rename_new
//@   ensures st.seq == old(st.seq) + 1 && histst.renames == old(histst.renames) + 1 && histst.rename_seq == st.seq && histst.rename_old == oldName && histst.rename_new == newName
//@ fn (HistoryStore).RemoveAll(hs, dagFile) (err)
//@   props C18
//@   trusted
//@   modifies ghost st.seq, ghost eff.hist, ghost histst.removealls, ghost histst.removeall_seq, ghost histst.removeall_loc, ghost histst.removeall_err
//@   ensures st.seq == old(st.seq) + 1 && histst.removealls == old(histst.removealls) + 1 && histst.removeall_seq == st.seq && histst.removeall_loc == dagFile && histst.removeall_err == err

// History lookups and edits used by the client (C20).
//@ ghost obs.find_calls int
//@ ghost obs.find_sf *model.StatusFile
//@ ghost obs.find_err error
//@ ghost obs.find_loc string
//@ ghost obs.find_id string
//@ ghost histst.updates int
//@ ghost histst.update_loc string
//@ ghost histst.update_id string
//@ ghost histst.update_status *model.Status
//@ fn (HistoryStore).FindByRequestID(hs, dagFile, requestID) (sf, err)
//@   props C20
//@   trusted
//@   modifies heap(alloc), ghost obs.find_calls, ghost obs.find_sf, ghost obs.find_err, ghost obs.find_loc, ghost obs.find_id
//@   ensures obs.find_calls == old(obs.find_calls) + 1 && obs.find_sf == sf && obs.find_err == err && obs.find_loc == dagFile && obs.find_id == requestID
//@   ensures err == nil ==> (sf != nil && sf.Status != nil)
//@   ensures [assumed_recorded_node_entries_are_not_null] err == nil ==> (forall i int :: 0 <= i && i < len(sf.Status.Nodes) ==> sf.Status.Nodes[i] != nil)
//@ fn (HistoryStore).Update(hs, dagFile, requestID, st) (err)
//@   props C20
//@   trusted
//@   modifies ghost eff.hist, ghost histst.updates, ghost histst.update_loc, ghost histst.update_id, ghost histst.update_status
//@   ensures eff.hist == old(eff.hist) + 1 && histst.updates == old(histst.updates) + 1 && histst.update_loc == dagFile && histst.update_id == requestID && histst.update_status == st
