//go:build verif

// Contracts for package persistence (comment-only file; no executable code).
// Interface-level contracts of the stores; the JSON-file implementation is specified in package jsondb.

package persistence

// History effects of the thread that calls them: how many, and in which order relative to the step scheduler.
//@ ghost hist.opens int
//@ ghost hist.writes int
//@ ghost hist.closes int
//@ ghost hist.removeolds int
//@ ghost hist.last_write_sched int     // value of eff.sched when the last Write was issued
//@ ghost hist.writes_at_close int      // value of hist.writes when Close was called

//@ fn (HistoryStore).Open(hs, dagFile, t, requestID) (err)
//@   props C03 C08 C14 C16
//@   trusted
//@   modifies ghost eff.hist, ghost hist.opens
//@   ensures eff.hist == old(eff.hist) + 1 && hist.opens == old(hist.opens) + 1

//@ fn (HistoryStore).Write(hs, status) (err)
//@   props C03 C08 C14 C16
//@   trusted
//@   modifies ghost eff.hist, ghost hist.writes, ghost hist.last_write_sched
//@   ensures eff.hist == old(eff.hist) + 1 && hist.writes == old(hist.writes) + 1 && hist.last_write_sched == eff.sched

//@ fn (HistoryStore).Close(hs) (err)
//@   props C03 C08 C14 C16
//@   trusted
//@   modifies ghost eff.hist, ghost hist.closes, ghost hist.writes_at_close
//@   ensures eff.hist == old(eff.hist) + 1 && hist.closes == old(hist.closes) + 1 && hist.writes_at_close == hist.writes

//@ fn (HistoryStore).RemoveOld(hs, dagFile, retentionDays) (err)
//@   props C03 C08 C14 C16
//@   trusted
//@   modifies ghost eff.hist, ghost hist.removeolds
//@   ensures eff.hist == old(eff.hist) + 1 && hist.removeolds == old(hist.removeolds) + 1

//@ fn (DataStores).HistoryStore(ds) (hs)
//@   props C03 C08 C14 C16
//@   trusted
//@   noeffect
//@   nonnilresult

//@ fn (DataStores).DAGStore(ds) (r)
//@   props C03 C08 C14 C16
//@   trusted
//@   noeffect

//@ fn (HistoryStore).ReadStatusToday(hs, dagFile) (st, err)
//@   props C08 C09 C20
//@   trusted
//@   modifies heap(alloc), ghost obs.today_err, ghost obs.today
//@   ensures obs.today_err == err && obs.today == st
//@   ensures err == nil ==> st != nil
