//go:build verif

// Contracts for package jsondb (comment-only file; no executable code).
// The history of a DAG file lives in its own directory <location>/<name>-<md5(full path)>/, one file per run.

package jsondb

// ---------------------------------------------------------------------------------------------
// Names: every path is a function of the DAG file's full path (C06: per-DAG confinement).

//@ sfunc md5_hex(s string) string = hex_of(md5_sum(s))
//@ sfunc dag_prefix(f string) string = trim_suffix(path_base(f), path_ext(f))
//@ sfunc hist_dir(s *JSONDB, f string) string = path_join(s.location, dag_prefix(f) + "-" + md5_hex(f))
//@ sfunc hist_prefix(s *JSONDB, f string) string = path_join(hist_dir(s, f), dag_prefix(f))
//@ ufunc glob_escape(p string) string       // the path with filepath.Glob's metacharacters quoted (matches exactly p)
//@ sfunc hist_pattern(s *JSONDB, f string) string = glob_escape(hist_prefix(s, f)) + "*" + ".dat"

// escapeGlob: trusted (strings.Replacer); audited by the bounded stand-in that runs the real queries on names
// containing every metacharacter.
//@ fn escapeGlob(path) (r)
//@   props C06 C18
//@   trusted
//@   noeffect
//@   ensures r == glob_escape(path)

//@ fn prefix(dagFile) (r)
//@   props C06 C18
//@   ensures [C06 prefix_is_the_file_name_without_extension] r == dag_prefix(dagFile)

// getDirectory hashes the full path of the DAG file (md5, hex) — verified against the assumed contracts of
// crypto/md5 and encoding/hex (a hash object accumulates what is written to it; digest and hex form are functions
// of that text): the directory name is a function of the file's full path and of nothing else.
//@ fn (*JSONDB).getDirectory(s, name, prefix) (r)
//@   props C06 C18
//@   modifies heap(alloc)
//@   ensures [C06,C18 history_directory_is_named_after_the_full_path] r == path_join(s.location, prefix + "-" + md5_hex(name))

//@ fn (*JSONDB).prefixWithDirectory(s, dagFile) (r)
//@   props C06 C18
//@   modifies heap(alloc)
//@   ensures [C06 history_lives_in_the_dag_s_own_directory] r == hist_prefix(s, dagFile)

//@ fn (*JSONDB).globPattern(s, dagFile) (r)
//@   props C06 C18
//@   modifies heap(alloc)
//@   ensures [C06 pattern_is_confined_to_the_dag_s_directory] r == hist_pattern(s, dagFile)

//@ fn (*JSONDB).newFile(s, dagFile, t, requestID) (r, err)
//@   props C06
//@   modifies heap(alloc)
//@   ensures [C06 empty_dag_file_is_refused] err != nil <==> dagFile == ""
//@   ensures [C06 run_file_name] err == nil ==> r == hist_prefix(s, dagFile) + "." + time_format(t, "20060102.15:04:05.000") + "." +
//@        ite(len(requestID) > 8, substr(requestID, 0, 8), requestID) + ".dat"

//@ fn (*JSONDB).exists(s, path) (r)
//@   props C06 C18
//@   modifies ghost obs.stat_err, ghost obs.stat_path
//@   ensures r <==> !is_not_exist(obs.stat_err)

// ---------------------------------------------------------------------------------------------
// The writer (C07): a status is acknowledged only after its line — the record, then a newline — has been flushed.

//@ ghost wr.writes int            // calls of (*writer).write
//@ ghost wr.last_target string    // the file the last write went to
//@ ghost wr.last_err error        // what it returned
//@ ghost wr.last_status *model.Status

//@ fn (*writer).open(w) (err)
//@   props C07
//@   modifies w.file, w.writer, heap(alloc), ghost fs.seq, ghost fs.mkdirs, ghost fs.appends, ghost fs.last_append_opened, ghost fs.creates, ghost fs.last_created, ghost eff.fs, ghost obs.exists*, ghost obs.stat*, ghost obs.mkdir*, ghost obs.glob*
//@   ensures [C07 closed_writer_is_not_reopened] old(w.closed) ==> (err != nil && fs.seq == old(fs.seq))
//@   ensures [C07 existing_history_file_is_never_truncated] fs.creates != old(fs.creates) ==>
//@        (fs.creates == old(fs.creates) + 1 && fs.last_created == w.target && obs.exists_path == w.target && !obs.exists)
//@   ensures [C07 open_acts_on_its_target_only] fs.appends != old(fs.appends) ==> (fs.appends == old(fs.appends) + 1 && fs.last_append_opened == w.target)
//@   ensures err == nil ==> (w.writer != nil && w.file != nil)

//@ fn (*writer).write(w, st) (err)
//@   props C07
//@   modifies heap(alloc), ghost bw.seq, ghost bw.write_seq, ghost bw.last_write, ghost bw.byte_seq, ghost bw.last_byte, ghost bw.flush_seq, ghost bw.flush_err, ghost bw.pending, ghost bw.flushes,
//@            ghost obs.marshal_out, ghost obs.marshal_in
//@   records wr.writes = old(wr.writes) + 1
//@   records wr.last_target = w.target
//@   records wr.last_err = err
//@   records wr.last_status = st
//@   ensures [C07 acknowledged_only_after_flush] err == nil ==>
//@        (bw.pending == 0 && bw.flush_err == nil && old(bw.seq) < bw.write_seq && bw.write_seq < bw.byte_seq && bw.byte_seq < bw.flush_seq && bw.flush_seq == bw.seq)
//@   ensures [C07 one_record_is_one_line] err == nil ==>
//@        (bw.last_write == obs.marshal_out && bw.last_byte == 10 && isType(obs.marshal_in, "*model.Status") && asType(obs.marshal_in, "*model.Status") == st)
//@   ensures [C07 closed_or_unopened_writer_writes_nothing] (old(w.closed) || old(w.writer) == nil) ==> (err != nil && bw.seq == old(bw.seq))

//@ fn (*writer).close(w) (err)
//@   props C07
//@   modifies w.closed, w.writer, w.file, ghost bw.seq, ghost bw.flush_seq, ghost bw.flush_err, ghost bw.pending, ghost bw.flushes
//@   ensures [C07 close_flushes_pending_bytes] !old(w.closed) && old(w.writer) != nil ==> (bw.flush_seq == bw.seq && bw.seq == old(bw.seq) + 1)
//@   ensures w.closed && (!old(w.closed) ==> (w.writer == nil && w.file == nil))

// ---------------------------------------------------------------------------------------------
// Reading a run's file (C06, C07, C08): every non-empty line is decoded, and the answer is the last line that
// decodes — a torn tail is ignored, an earlier complete record is never hidden by it.

//@ ghost rd.lines int             // non-empty lines handed out by readLineFrom
//@ ghost rd.calls int
//@ fn readLineFrom(f, offset) (line, err)
//@   props C06 C07 C08
//@   trusted
//@   modifies heap(alloc), ghost rd.lines, ghost rd.calls
//@   ensures rd.calls == old(rd.calls) + 1
//@   ensures rd.lines == old(rd.lines) + ite(err == nil && len(line) > 0, 1, 0)
//@   ensures err != nil ==> len(line) >= 0

//@ ghost obs.json_calls int
//@ ghost obs.json_ok int                 // successful decodes so far
//@ ghost obs.json_last_ok *model.Status  // result of the last successful decode
//@ ghost obs.parse_calls int
//@ ghost obs.parse_st *model.Status
//@ ghost obs.parse_err error
//@ ghost obs.parse_file string

//@ fn ParseFile(file) (st, err)
//@   props C06 C07 C08
//@   modifies heap(alloc), ghost rd.*, ghost obs.json_st, ghost obs.json_err, ghost obs.json_calls, ghost obs.json_ok, ghost obs.json_last_ok
//@   records obs.parse_calls = old(obs.parse_calls) + 1
//@   records obs.parse_st = st
//@   records obs.parse_err = err
//@   records obs.parse_file = file
//@   ensures [C07 every_line_is_examined] err == nil ==> obs.json_calls - old(obs.json_calls) == rd.lines - old(rd.lines)
//@   ensures [C07 last_decodable_line_wins] err == nil ==> (obs.json_ok > old(obs.json_ok) && st == obs.json_last_ok && st != nil)
//@   ensures [C07 torn_tail_does_not_hide_earlier_records] obs.json_ok > old(obs.json_ok) && rd.calls > old(rd.calls) ==> (err == nil || err != io.EOF)
//@   ensures st == nil <==> err != nil
//@   loop 0 invariant obs.json_calls - old(obs.json_calls) == rd.lines - old(rd.lines)
//@   loop 0 invariant obs.json_ok >= old(obs.json_ok)
//@   loop 0 invariant (ret == nil <==> obs.json_ok == old(obs.json_ok)) && (ret != nil ==> ret == obs.json_last_ok)

// ---------------------------------------------------------------------------------------------
// Compaction (C07): at every instant some file holds the acknowledged status — the original is removed only after
// the copy's line has been written and flushed; if the copy fails, the copy (not the original) is removed.

//@ ghost compact.calls int
//@ fn (*JSONDB).Compact(s, original) (err)
//@   props C07
//@   modifies heap(alloc), heap(writer), ghost fs.*, ghost eff.fs, ghost obs.exists*, ghost obs.stat*, ghost obs.mkdir*, ghost obs.glob*, ghost obs.marshal*, ghost obs.json*, ghost obs.parse*, ghost bw.*, ghost wr.*, ghost rd.*
//@   records compact.calls = old(compact.calls) + 1
//@   assert before os.Remove [C07 nothing_is_removed_before_the_copy_was_attempted] wr.writes == old(wr.writes) + 1 && wr.last_status == obs.parse_st && obs.parse_file == original
//@   assert before os.Remove#1 [C07 original_removed_only_after_the_copy_is_acknowledged] arg0 == original && wr.last_err == nil
//@   assert before os.Remove#0 [C07 failed_copy_is_removed_not_the_original] wr.last_err != nil && arg0 == wr.last_target
//@   ensures [C07 at_most_one_file_removed] fs.removes == old(fs.removes) || fs.removes == old(fs.removes) + 1
//@   ensures [C07 unreadable_original_is_left_alone] obs.parse_err != nil ==> (fs.removes == old(fs.removes) && fs.creates == old(fs.creates))
//@   ensures [C07 copy_is_a_different_file_in_the_same_directory] wr.writes != old(wr.writes) ==>
//@        wr.last_target == path_join(path_dir(original), trim_suffix(path_base(original), path_ext(original)) + "_c.dat")

//@ fn (*JSONDB).newWriter(s, dagFile, t, requestID) (w, f, err)
//@   props C06 C07
//@   modifies heap(alloc)
//@   ensures err != nil <==> dagFile == ""
//@   ensures err == nil ==> (w != nil && !wasAllocated(w) && w.target == f && !w.closed && w.writer == nil && f ==
//@        hist_prefix(s, dagFile) + "." + time_format(t, "20060102.15:04:05.000") + "." + ite(len(requestID) > 8, substr(requestID, 0, 8), requestID) + ".dat")

//@ fn (*JSONDB).Open(s, dagFile, t, requestID) (err)
//@   props C06 C07
//@   modifies s.writer, heap(alloc), heap(writer.file), heap(writer.writer), ghost fs.seq, ghost fs.mkdirs, ghost fs.appends, ghost fs.last_append_opened, ghost fs.creates, ghost fs.last_created, ghost eff.fs, ghost obs.exists*, ghost obs.stat*, ghost obs.mkdir*, ghost obs.glob*
//@   ensures [C06 run_is_recorded_in_the_dag_s_own_directory] err == nil ==> (s.writer != nil && s.writer.target ==
//@        hist_prefix(s, dagFile) + "." + time_format(t, "20060102.15:04:05.000") + "." + ite(len(requestID) > 8, substr(requestID, 0, 8), requestID) + ".dat")
//@   ensures [C07 open_never_truncates_another_run] fs.creates != old(fs.creates) ==> !obs.exists

//@ fn (*JSONDB).Write(s, status) (err)
//@   props C06 C07
//@   requires s.writer != nil
//@   modifies heap(alloc), ghost bw.seq, ghost bw.write_seq, ghost bw.last_write, ghost bw.byte_seq, ghost bw.last_byte, ghost bw.flush_seq, ghost bw.flush_err, ghost bw.pending, ghost bw.flushes,
//@            ghost obs.marshal_out, ghost obs.marshal_in, ghost wr.writes, ghost wr.last_target, ghost wr.last_err, ghost wr.last_status
//@   ensures [C07 write_is_acknowledged_by_the_writer] wr.writes == old(wr.writes) + 1 && wr.last_err == err && wr.last_status == status && wr.last_target == s.writer.target

//@ fn (*JSONDB).Close(s) (err)
//@   props C06 C07
//@   modifies *
//@   ensures [C07 run_file_is_compacted_before_it_is_closed] old(s.writer) != nil ==> compact.calls == old(compact.calls) + 1
//@   ensures [C07 writer_is_released] s.writer == nil
//@   assert before (*JSONDB).Compact [C07 compacts_this_run_s_file] arg1 == old(s.writer.target)

// ---------------------------------------------------------------------------------------------
// Queries and clean-up (C06, C20): only files matched by this DAG's own pattern are read, removed or renamed.

//@ ghost obs.found_file string
//@ ghost obs.found bool
//@ fn (*JSONDB).FindByRequestID(s, dagFile, requestID) (sf, err)
//@   props C06 C20
//@   modifies heap(alloc), heap(elems(string)), ghost obs.exists*, ghost obs.stat*, ghost obs.mkdir*, ghost obs.glob*, ghost obs.json*, ghost obs.parse*, ghost rd.*
//@   records obs.found_file = ite(err == nil, sf.File, "")
//@   records obs.found = (err == nil)
//@   ensures [C06 empty_request_id_is_not_found] requestID == "" ==> err != nil
//@   ensures [C06 found_run_has_that_request_id] err == nil ==> (sf != nil && sf.Status != nil && sf.Status.RequestID == requestID)
//@   ensures [C06 found_run_belongs_to_this_dag] err == nil ==> (glob_match(hist_pattern(s, dagFile), sf.File) && sf.Status == obs.parse_st && obs.parse_file == sf.File)
//@   ensures sf == nil <==> err != nil
//@   loop 0 invariant forall i int :: 0 <= i && i < len(matches) ==> glob_match(hist_pattern(s, dagFile), matches[i])

//@ fn (*JSONDB).RemoveOld(s, dagFile, retentionDays) (err)
//@   props C06 C18
//@   modifies heap(alloc), ghost obs.exists*, ghost obs.stat*, ghost obs.mkdir*, ghost obs.glob*, ghost fs.*, ghost eff.fs
//@   ensures [C06 negative_retention_removes_nothing] retentionDays < 0 ==> fs.removes == old(fs.removes)
//@   assert before os.Remove [C06 retention_removes_only_this_dag_s_runs] glob_match(hist_pattern(s, dagFile), arg0) && arg0 == m
//@   assert before os.Remove [C06 retention_removes_only_old_runs] obs.stat_path == arg0 && obs.stat_err == nil && mod_time(info) < ot && (exists now time.Time :: ot == add_date(now, 0, 0, 0 - retentionDays))
//@   assert before (time.Time).AddDate [C06 cutoff_is_retention_days_before_now] arg1 == 0 && arg2 == 0 && arg3 == 0 - retentionDays
//@   expect calls time.Now >= 1
//@   loop 0 invariant forall i int :: 0 <= i && i < len(matches) ==> glob_match(hist_pattern(s, dagFile), matches[i])
//@   loop 0 invariant retentionDays >= 0

//@ fn (*JSONDB).RemoveAll(s, dagFile) (err)
//@   props C06 C18
//@   modifies heap(alloc), ghost obs.exists*, ghost obs.stat*, ghost obs.mkdir*, ghost obs.glob*, ghost fs.*, ghost eff.fs
//@   expect calls (*JSONDB).RemoveOld >= 1
//@   assert before (*JSONDB).RemoveOld [C06 delete_is_retention_zero_on_this_dag_only] arg0 == s && arg1 == dagFile && arg2 == 0

// Recency: files are ordered by the timestamp embedded in their names, newest first.
//@ ufunc ts_of(file string) string
//@ fn timestamp(file) (r)
//@   props C06
//@   trusted
//@   noeffect
//@   ensures r == ts_of(file)

//@ fn filterLatest$1(i, j) (r)
//@   props C06
//@   requires 0 <= i && i < len(files) && 0 <= j && j < len(files)
//@   ensures [C06 comparator_is_newer_first] r <==> ts_of(files[i]) > ts_of(files[j])

//@ fn filterLatest(files, n) (r)
//@   props C06
//@   requires n >= 0
//@   modifies contents(files)
//@   ensures [C06 at_most_n_runs] len(r) == ite(n > len(files), len(files), n)
//@   ensures [C06 result_is_the_head_of_the_sorted_list] len(files) > 0 ==> r == files[0:ite(n > len(files), len(files), n)]
//@   ensures [C06 newest_first] forall i int, j int :: 0 <= i && i < j && j < len(r) ==> !(ts_of(r[i]) < ts_of(r[j]))
//@   ensures [C06 nothing_newer_is_left_out] forall i int, k int :: 0 <= i && i < len(r) && len(r) <= k && k < len(files) ==> !(ts_of(r[i]) < ts_of(files[k]))
//@   ensures [C06 only_given_runs_are_returned] forall i int :: 0 <= i && i < len(r) ==> (exists j int :: 0 <= j && j < len(files) && r[i] == old(files[j]))

//@ fn (*JSONDB).latest(s, pattern, n) (r)
//@   props C06
//@   requires n >= 0
//@   modifies heap(alloc), heap(elems(string)), ghost obs.exists*, ghost obs.stat*, ghost obs.mkdir*, ghost obs.glob*
//@   ensures [C06 latest_come_from_the_pattern] forall i int :: 0 <= i && i < len(r) ==> glob_match(pattern, r[i])
//@   ensures [C06 latest_newest_first] forall i int, j int :: 0 <= i && i < j && j < len(r) ==> !(ts_of(r[i]) < ts_of(r[j]))
//@   ensures len(r) <= n

//@ fn (*JSONDB).latestToday(s, dagFile, day, latestStatusToday) (r, err)
//@   props C06 C08
//@   modifies heap(alloc), heap(elems(string)), ghost obs.exists*, ghost obs.stat*, ghost obs.mkdir*, ghost obs.glob*
//@   ensures [C06 latest_run_is_of_this_dag] err == nil ==> glob_match(obs.glob_pattern, r)
//@   ensures [C06 latest_run_is_the_newest] err == nil ==> (forall i int :: 0 <= i && i < len(obs.glob_matches) ==> !(ts_of(r) < ts_of(obs.glob_matches[i])))
//@   ensures [C06 latest_run_pattern] obs.glob_pattern == ite(latestStatusToday,
//@        glob_escape(hist_prefix(s, dagFile)) + "." + time_format(day, "20060102") + "*.*.dat", glob_escape(hist_prefix(s, dagFile)) + ".*.*.dat")

//@ fn (*JSONDB).Update(s, dagFile, requestID, status) (err)
//@   props C06 C07 C20
//@   modifies *
//@   expect calls (*writer).write >= 1
//@   assert before (*writer).open [C20 update_opens_the_addressed_run_s_file] arg0.target == obs.found_file && obs.found
//@   assert before (*writer).write [C20 update_appends_the_given_status] arg0.target == obs.found_file && arg1 == status
//@   ensures [C07 update_never_truncates] fs.creates != old(fs.creates) ==> !obs.exists
//@   ensures [C20 unknown_run_is_not_updated] !obs.found ==> (err != nil && wr.writes == old(wr.writes) && fs.seq == old(fs.seq))

// The loaders handed to the cache parse exactly the file they are registered for.
//@ fn (*JSONDB).ReadStatusToday$1() (st, err)
//@   props C06 C08
//@   modifies heap(alloc), ghost rd.lines, ghost rd.calls, ghost obs.json_st, ghost obs.json_err, ghost obs.json_calls, ghost obs.json_ok, ghost obs.json_last_ok,
//@            ghost obs.parse_calls, ghost obs.parse_st, ghost obs.parse_err, ghost obs.parse_file
//@   ensures [C06 loader_parses_its_own_file] obs.parse_file == file && st == obs.parse_st && err == obs.parse_err
//@ fn (*JSONDB).ReadStatusRecent$1() (st, err)
//@   props C06
//@   modifies heap(alloc), ghost rd.lines, ghost rd.calls, ghost obs.json_st, ghost obs.json_err, ghost obs.json_calls, ghost obs.json_ok, ghost obs.json_last_ok,
//@            ghost obs.parse_calls, ghost obs.parse_st, ghost obs.parse_err, ghost obs.parse_file
//@   ensures [C06 loader_parses_its_own_file] obs.parse_file == file && st == obs.parse_st && err == obs.parse_err

//@ fn (*JSONDB).ReadStatusToday(s, dagFile) (st, err)
//@   props C06 C08
//@   modifies *
//@   expect calls (*persistence/filecache.Cache[*persistence/model.Status]).LoadLatest[*persistence/model.Status] >= 1
//@   assert before (*persistence/filecache.Cache[*persistence/model.Status]).LoadLatest[*persistence/model.Status] [C06 latest_run_of_this_dag_is_loaded]
//@        glob_match(obs.glob_pattern, arg1) && isClosure(arg2, "(*JSONDB).ReadStatusToday$1") &&
//@        (s.latestStatusToday ==> (exists d time.Time :: obs.glob_pattern == glob_escape(hist_prefix(s, dagFile)) + "." + time_format(d, "20060102") + "*.*.dat")) &&
//@        (!s.latestStatusToday ==> obs.glob_pattern == glob_escape(hist_prefix(s, dagFile)) + ".*.*.dat")

//@ fn (*JSONDB).ReadStatusRecent(s, dagFile, n) (ret)
//@   props C06
//@   requires n >= 0
//@   modifies *
//@   assert before (*JSONDB).latest [C06 recent_runs_come_from_this_dag_s_pattern] arg1 == hist_pattern(s, dagFile) && arg2 == n
//@   assert before (*persistence/filecache.Cache[*persistence/model.Status]).LoadLatest[*persistence/model.Status] [C06 each_recent_run_is_loaded_from_its_file]
//@        arg1 == files[idx + 1] && isClosure(arg2, "(*JSONDB).ReadStatusRecent$1")
//@   loop 0 invariant [C06 recent_runs_keep_the_newest_first_order] len(ret) <= idx + 1 &&
//@        (forall i int :: 0 <= i && i < len(ret) ==> (ret[i] != nil && (exists k int :: i <= k && k <= idx && ret[i].File == files[k]))) &&
//@        (forall i int, j int :: 0 <= i && i < j && j < len(ret) ==> !(ts_of(ret[i].File) < ts_of(ret[j].File)))
//@   loop 0 invariant forall i int, j int :: 0 <= i && i < j && j < len(files) ==> !(ts_of(files[i]) < ts_of(files[j]))
//@   ensures [C06 recent_history_is_newest_first] forall i int, j int :: 0 <= i && i < j && j < len(ret) ==> !(ts_of(ret[i].File) < ts_of(ret[j].File))
//@   ensures [C06 at_most_n_recent_runs] len(ret) <= n

// Rename (C06, C18): every run file of the old name is moved into the new name's directory under the new prefix.
//@ fn (*JSONDB).Rename(s, oldID, newID) (err)
//@   props C06 C18
//@   modifies *
//@   ensures [C18 refused_rename_moves_nothing] err != nil ==> (fs.renames == old(fs.renames) && fs.removes == old(fs.removes))
//@   ensures [C18 history_rename_is_refused_only_for_a_reason] err != nil ==>
//@        (!is_abs(add_yaml(oldID)) || !is_abs(add_yaml(newID)) || obs.mkdir_err != nil || obs.glob_err != nil)
//@   assert before os.Rename [C18 each_run_moves_to_the_new_name_s_directory]
//@        arg0 == m && glob_match(hist_pattern(s, on), m) &&
//@        arg1 == path_join(hist_dir(s, nn), str_replace(path_base(m), path_base(hist_prefix(s, on)), path_base(hist_prefix(s, nn)), 1))
//@   loop 0 invariant forall i int :: 0 <= i && i < len(matches) ==> glob_match(hist_pattern(s, on), matches[i])
//@   loop 0 invariant s == old(s) && s.location == old(s.location)
//@   loop 0 step [C18 every_run_is_carried_over] fs.renames == iter(fs.renames) + 1 && fs.last_rename_from == matches[idx]
//@   loop 0 step [C18 nothing_is_removed_while_renaming] fs.removes == iter(fs.removes) && fs.creates == iter(fs.creates) && fs.writefiles == iter(fs.writefiles)
