//go:build verif

// Contracts for package local (comment-only file; no executable code).
// The DAG store: one YAML file per DAG under the DAGs directory.

package local

//@ fn exists(file) (r)
//@   props C18 C19
//@   modifies ghost obs.stat_err, ghost obs.stat_path
//@   ensures [C18 exists_means_stat_did_not_say_missing] obs.stat_path == file && (r <==> !is_not_exist(obs.stat_err))
//@   records obs.exists_calls = old(obs.exists_calls) + 1
//@   records obs.exists = r
//@   records obs.exists_path = file

//@ sfunc dag_location(dir string, name string) string = add_yaml(upath_join(dir, name))
//@ fn (*dagStoreImpl).fileLocation(d, name) (loc, err)
//@   props C18 C19
//@   modifies heap(alloc)
//@   ensures err == nil && loc == ite(contains(name, "/"), name, dag_location(d.dir, name))

//@ fn (*dagStoreImpl).ensureDirExist(d) (err)
//@   props C18
//@   modifies ghost obs.stat*, ghost obs.exists*, ghost obs.mkdir*, ghost fs.seq, ghost fs.mkdirs, ghost eff.fs

// Create never writes over an existing definition.
//@ fn (*dagStoreImpl).Create(d, name, spec) (id, err)
//@   props C18
//@   modifies heap(alloc), ghost obs.stat*, ghost obs.exists*, ghost obs.mkdir*, ghost fs.seq, ghost fs.mkdirs, ghost fs.writefiles, ghost fs.last_writefile, ghost eff.fs
//@   assert before os.WriteFile [C18 create_only_where_nothing_exists] obs.exists_path == arg0 && !obs.exists && arg0 == ite(contains(name, "/"), name, dag_location(d.dir, name)) && arg1 == spec
//@   ensures [C18 existing_definition_is_never_overwritten] fs.writefiles == old(fs.writefiles) || (fs.writefiles == old(fs.writefiles) + 1 && !obs.exists && obs.exists_path == fs.last_writefile)

// Rename never replaces an existing definition.
//@ fn (*dagStoreImpl).Rename(d, oldID, newID) (err)
//@   props C18
//@   modifies heap(alloc), ghost obs.stat_err, ghost obs.stat_path, ghost obs.exists_calls, ghost obs.exists, ghost obs.exists_path, ghost fs.seq, ghost fs.renames,
//@            ghost fs.last_rename_from, ghost fs.last_rename_to, ghost eff.fs
//@   assert before os.Rename [C18 rename_target_does_not_exist] obs.exists_path == arg1 && !obs.exists
//@   assert before os.Rename [C18 rename_moves_the_definition_to_the_new_name] arg0 == ite(contains(oldID, "/"), oldID, dag_location(d.dir, oldID)) &&
//@        arg1 == ite(contains(newID, "/"), newID, dag_location(d.dir, newID))
//@   ensures [C18 at_most_one_rename] fs.renames == old(fs.renames) || fs.renames == old(fs.renames) + 1

// Saving: the new text replaces the old one all-or-nothing (temp file + rename), and never touches another path.
//@ fn writeFileAtomic(file, data) (err)
//@   props C18
//@   modifies heap(alloc), ghost fs.seq, ghost fs.temps, ghost fs.renames, ghost fs.last_rename_from, ghost fs.last_rename_to, ghost fs.removes, ghost fs.last_removed, ghost fs.remove_seq, ghost eff.fs,
//@            ghost fw.seq, ghost fw.writes, ghost fw.write_seq, ghost fw.last_file, ghost fw.last_data, ghost fw.write_err, ghost obs.stat_err, ghost obs.stat_path
//@   expect calls (*os.File).Sync >= 1
//@   expect calls (*os.File).Close >= 1
//@   assert before (*os.File).Sync [C18 the_temporary_file_is_synced] arg0 == tmp && fw.last_file == tmp && fw.write_err == nil
//@   assert before (*os.File).Close [C18 the_temporary_file_is_closed] arg0 == tmp
//@   assert before os.Rename [C18 new_text_is_complete_before_it_replaces_the_old] arg1 == file && arg0 == file_name(tmp) &&
//@        fw.writes == old(fw.writes) + 1 && fw.last_file == tmp && fw.last_data == data && fw.write_err == nil
//@   assert before os.Remove [C18 only_the_temporary_file_is_ever_removed] arg0 == file_name(tmp)
//@   ensures [C18 the_file_itself_is_only_ever_replaced_by_rename] fs.writefiles == old(fs.writefiles) && fs.creates == old(fs.creates) && fs.appends == old(fs.appends) &&
//@        (fs.renames == old(fs.renames) || (fs.renames == old(fs.renames) + 1 && fs.last_rename_to == file))
//@   ensures [C18 success_means_replaced] err == nil ==> fs.renames == old(fs.renames) + 1
//@   ensures [C18 failure_leaves_the_old_text] fs.renames == old(fs.renames) ==> err != nil

//@ fn (*dagStoreImpl).UpdateSpec(d, name, spec) (err)
//@   props C18 C19
//@   modifies heap(alloc), heap(map(string, any)), heap(elems(any)), ghost obs.stat_err, ghost obs.stat_path, ghost obs.exists_calls, ghost obs.exists, ghost obs.exists_path,
//@            ghost fs.seq, ghost fs.temps, ghost fs.renames, ghost fs.last_rename_from, ghost fs.last_rename_to, ghost fs.removes, ghost fs.last_removed, ghost fs.remove_seq, ghost eff.fs,
//@            ghost fw.seq, ghost fw.writes, ghost fw.write_seq, ghost fw.last_file, ghost fw.last_data, ghost fw.write_err,
//@            ghost env.key, ghost env.val, ghost obs.parsed, ghost obs.validate_err
//@   assert before writeFileAtomic [C18 only_a_valid_definition_is_saved] obs.validate_err == nil && arg1 == spec
//@   assert before writeFileAtomic [C18 only_an_existing_definition_is_saved_over] obs.exists && obs.exists_path == arg0 && arg0 == ite(contains(name, "/"), name, dag_location(d.dir, name))
//@   ensures [C18 rejected_save_changes_nothing] obs.validate_err != nil ==> (err != nil && fs.seq == old(fs.seq))
//@   ensures [C18 save_never_writes_in_place] fs.writefiles == old(fs.writefiles) && fs.creates == old(fs.creates)
//@   ensures [C19 validating_has_no_side_effects] eff.exec == old(eff.exec) && eff.env == old(eff.env)

//@ fn (*dagStoreImpl).Delete(d, name) (err)
//@   props C18
//@   modifies heap(alloc), ghost fs.seq, ghost fs.removes, ghost fs.last_removed, ghost fs.remove_seq, ghost eff.fs
//@   ensures [C18 delete_removes_only_this_definition] fs.removes == old(fs.removes) + 1 && fs.last_removed == ite(contains(name, "/"), name, dag_location(d.dir, name))

// Listing / display / lookup never evaluate a definition.
//@ fn (*dagStoreImpl).GetMetadata$1() (dg, err)
//@   props C19
//@   modifies heap(alloc), heap(map(string, any)), heap(elems(any)), ghost obs.meta_calls, ghost obs.meta_err, ghost obs.meta_dag, ghost env.key, ghost env.val, ghost obs.parsed,
//@            ghost obs.exists_calls, ghost obs.exists, ghost obs.exists_path, ghost obs.stat_err, ghost obs.stat_path
//@   ensures [C19 cached_listing_loader_has_no_side_effects] eff.exec == old(eff.exec) && eff.env == old(eff.env)
//@ fn (*dagStoreImpl).GetDetails(d, name) (dg, err)
//@   props C19
//@   modifies heap(alloc), heap(map(string, any)), heap(elems(any)), ghost env.key, ghost env.val, ghost obs.parsed, ghost obs.exists_calls, ghost obs.exists, ghost obs.exists_path, ghost obs.stat_err, ghost obs.stat_path
//@   ensures [C19 display_has_no_side_effects] eff.exec == old(eff.exec) && eff.env == old(eff.env)
