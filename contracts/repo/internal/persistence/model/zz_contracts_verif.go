//go:build verif

// Contracts for package model (comment-only file; no executable code).

package model

// Decoding a status: the ghost pair names the outcome so that callers can be specified relative to it.
//@ ghost obs.json_st *Status
//@ ghost obs.json_err error
//@ fn StatusFromJSON(s) (st, err)
//@   props C08 C16 C20
//@   trusted
//@   modifies heap(alloc), ghost obs.json_st, ghost obs.json_err, ghost obs.json_calls, ghost obs.json_ok, ghost obs.json_last_ok
//@   ensures obs.json_st == st && obs.json_err == err && obs.json_calls == old(obs.json_calls) + 1
//@   ensures err != nil ==> (st == nil && obs.json_ok == old(obs.json_ok) && obs.json_last_ok == old(obs.json_last_ok))
//@   ensures err == nil ==> (st != nil && obs.json_ok == old(obs.json_ok) + 1 && obs.json_last_ok == st)

// A run recorded as running whose process is gone counts as failed; everything else is left as recorded.
//@ fn (*Status).CorrectRunningStatus(st)
//@   props C08 C20
//@   modifies st.Status, st.StatusText
//@   ensures [C08 running_becomes_failed] old(st.Status) == scheduler.StatusRunning ==> st.Status == scheduler.StatusError
//@   ensures [C08 other_states_untouched] old(st.Status) != scheduler.StatusRunning ==> (st.Status == old(st.Status) && st.StatusText == old(st.StatusText))
//@   ensures [C08 never_left_running] st.Status != scheduler.StatusRunning
//@   ensures [C08 corrected_status_is_shown_as_failed] old(st.Status) == scheduler.StatusRunning ==> st.StatusText == "failed"

//@ fn errText(err) (r)
//@   props C08
//@   trusted
//@   pure

// The persisted node table is the node state: nothing is lost or invented on the way into a status record.
//@ fn FromNode(node) (n)
//@   props C08
//@   modifies heap(alloc)
//@   ensures [C08 node_record_is_faithful] n != nil && !wasAllocated(n) && n.Status == node.State.Status && n.RetryCount == node.State.RetryCount &&
//@        n.DoneCount == node.State.DoneCount && n.Log == node.State.Log && n.Step == node.Step
//@   ensures [C08 node_record_shows_the_status_under_its_own_name] n.StatusText == step_status_text(node.State.Status)

//@ fn FromNodes(nodes) (ret)
//@   props C08
//@   modifies heap(alloc)
//@   ensures [C08 one_record_per_node] len(ret) == len(nodes)
//@   ensures [C08 every_record_is_faithful] forall i int :: 0 <= i && i < len(nodes) ==>
//@        (ret[i] != nil && ret[i].Status == nodes[i].State.Status && ret[i].RetryCount == nodes[i].State.RetryCount &&
//@         ret[i].DoneCount == nodes[i].State.DoneCount && ret[i].Log == nodes[i].State.Log && ret[i].Step.Name == nodes[i].Step.Name)
//@   loop 0 invariant len(ret) == idx + 1
//@   loop 0 invariant forall i int :: 0 <= i && i <= idx ==>
//@        (ret[i] != nil && ret[i].Status == nodes[i].State.Status && ret[i].RetryCount == nodes[i].State.RetryCount &&
//@         ret[i].DoneCount == nodes[i].State.DoneCount && ret[i].Log == nodes[i].State.Log && ret[i].Step.Name == nodes[i].Step.Name)

//@ fn NewStatus(workflow, nodes, status, pid, startTime, endTime) (st)
//@   props C08
//@   requires workflow != nil
//@   nullable startTime endTime
//@   modifies heap(alloc)
//@   ensures st != nil && !wasAllocated(st) && st.Status == status && st.Name == workflow.Name
//@   ensures [C08 run_record_shows_the_status_under_its_own_name] st.StatusText == run_status_text(status)
//@   ensures [C08 node_table_is_the_node_state] len(nodes) != 0 ==> (len(st.Nodes) == len(nodes) &&
//@        (forall i int :: 0 <= i && i < len(nodes) ==> (st.Nodes[i] != nil && st.Nodes[i].Status == nodes[i].State.Status &&
//@            st.Nodes[i].RetryCount == nodes[i].State.RetryCount && st.Nodes[i].DoneCount == nodes[i].State.DoneCount && st.Nodes[i].Log == nodes[i].State.Log)))

//@ fn NewStatusDefault(workflow) (st)
//@   props C08 C16
//@   modifies heap(alloc)
//@   ensures [C08 default_status_is_not_started] st != nil && !wasAllocated(st) && st.Status == scheduler.StatusNone

//@ fn FromNodesOrSteps(nodes, steps) (ret)
//@   props C08
//@   modifies heap(alloc)
//@   ensures [C08 node_table_from_the_nodes_when_there_are_any] len(nodes) != 0 ==> (len(ret) == len(nodes) &&
//@        (forall i int :: 0 <= i && i < len(nodes) ==> (ret[i] != nil && ret[i].Status == nodes[i].State.Status &&
//@            ret[i].RetryCount == nodes[i].State.RetryCount && ret[i].DoneCount == nodes[i].State.DoneCount && ret[i].Log == nodes[i].State.Log)))
//@ fn NewNode(step) (n)
//@   props C08
//@   modifies heap(alloc)
//@   ensures n != nil && !wasAllocated(n) && n.Step == step && n.Status == scheduler.NodeStatusNone && n.RetryCount == 0 && n.DoneCount == 0 && n.Log == ""
//@ fn nodeOrNil(s) (n)
//@   props C08
//@   nullable s
//@   modifies heap(alloc)
//@   ensures (n == nil) <==> (s == nil)
//@   ensures s != nil ==> (n.Step.Name == s.Name && n.Status == scheduler.NodeStatusNone)
//@ fn FromSteps(steps) (ret)
//@   props C08
//@   modifies heap(alloc)
//@   ensures [C08 one_not_started_record_per_step] len(ret) == len(steps) && (forall i int :: 0 <= i && i < len(steps) ==>
//@        (ret[i] != nil && ret[i].Status == scheduler.NodeStatusNone && ret[i].Step.Name == steps[i].Name))
//@   loop 0 invariant len(ret) == idx + 1
//@   loop 0 invariant forall i int :: 0 <= i && i <= idx ==> (ret[i] != nil && ret[i].Status == scheduler.NodeStatusNone && ret[i].Step.Name == steps[i].Name)
//@ fn FormatTime(val) (r)
//@   props C08
//@   trusted
//@   pure
//@ fn Params(params) (r)
//@   props C08 C10 C11
//@   trusted
//@   pure

// Retry (C10): the scheduler node rebuilt from a recorded node has the recorded step and the recorded state.
//@ fn errFromText(err) (r)
//@   props C10
//@   modifies heap(alloc)
//@   ensures (r == nil) <==> (err == "")

//@ fn (*Node).ToNode(n) (r)
//@   props C10
//@   modifies heap(alloc)
//@   ensures [C10 retry_node_is_the_recorded_step_and_state] r != nil && !wasAllocated(r) && r.data.Step == n.Step &&
//@        r.data.State.Status == n.Status && r.data.State.Log == n.Log && r.data.State.RetryCount == n.RetryCount &&
//@        r.data.State.DoneCount == n.DoneCount && ((r.data.State.Error == nil) <==> (n.Error == "")) && r.id == 0
