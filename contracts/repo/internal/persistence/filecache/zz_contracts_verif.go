//go:build verif

// Contracts for package filecache (comment-only file; no executable code).
// The status cache is keyed by file name and validated against the file's size and modification time; its
// staleness behaviour is outside what these contracts decide (DESIGN §7 C06).

package filecache

//@ fn (*Cache).Invalidate(c, fileName)
//@   props C06 C07
//@   trusted
//@   noeffect

// LoadLatest returns the cached value for an unchanged file or calls the loader.
//@ fn (*Cache).LoadLatest(c, filePath, loader) (v, err)
//@   props C06 C07
//@   trusted
//@   modifies heap(alloc)
