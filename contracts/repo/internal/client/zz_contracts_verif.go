//go:build verif

// Contracts for package client (comment-only file; no executable code).

package client

// ---------------------------------------------------------------------------------------------
// Interface-level contracts of client.Client.  Callers (daemon jobs, web handlers) are verified against
// these; the implementation methods of *client are verified against their own contracts below.  That the
// two agree is by inspection (trusted), DESIGN §8.
//
// Ghost effect channels: one counter per mutating operation plus the arguments it was last given.

//@ ghost cli.start int
//@ ghost cli.start_dag *dag.DAG
//@ ghost cli.start_params string
//@ ghost cli.start_quiet bool
//@ ghost cli.startasync int
//@ ghost cli.stop int
//@ ghost cli.stop_dag *dag.DAG
//@ ghost cli.restart int
//@ ghost cli.restart_dag *dag.DAG
//@ ghost cli.retry int
//@ ghost cli.retry_reqid string
//@ ghost cli.update int
//@ ghost cli.update_status *model.Status
//@ ghost cli.suspend int
//@ ghost cli.suspend_id string
//@ ghost cli.suspend_val bool
//@ ghost cli.save int
//@ ghost cli.save_id string
//@ ghost cli.save_spec string
//@ ghost cli.rename int
//@ ghost cli.rename_old string
//@ ghost cli.rename_new string
//@ ghost cli.create int
//@ ghost cli.delete int
// last observation made through the read-only operations
//@ ghost obs.latest_err error
//@ ghost obs.latest *model.Status

//@ fn (Client).GetLatestStatus(c, workflow) (st, err)
//@   props C09 C20
//@   trusted
//@   modifies ghost obs.latest_err, ghost obs.latest
//@   ensures obs.latest_err == err && obs.latest == st
//@   ensures err == nil ==> st != nil

//@ fn (Client).Start(c, workflow, opts) (err)
//@   props C09 C20
//@   trusted
//@   modifies ghost cli.start, ghost cli.start_dag, ghost cli.start_params, ghost cli.start_quiet
//@   ensures cli.start == old(cli.start) + 1 && cli.start_dag == workflow && cli.start_params == opts.Params && cli.start_quiet == opts.Quiet

//@ fn (Client).StartAsync(c, workflow, opts)
//@   props C20
//@   trusted
//@   modifies ghost cli.startasync, ghost cli.start_dag, ghost cli.start_params, ghost cli.start_quiet
//@   ensures cli.startasync == old(cli.startasync) + 1 && cli.start_dag == workflow && cli.start_params == opts.Params && cli.start_quiet == opts.Quiet

//@ fn (Client).Stop(c, workflow) (err)
//@   props C09 C20
//@   trusted
//@   modifies ghost cli.stop, ghost cli.stop_dag
//@   ensures cli.stop == old(cli.stop) + 1 && cli.stop_dag == workflow

//@ fn (Client).Restart(c, workflow, opts) (err)
//@   props C09
//@   trusted
//@   modifies ghost cli.restart, ghost cli.restart_dag
//@   ensures cli.restart == old(cli.restart) + 1 && cli.restart_dag == workflow

//@ ufunc is_suspended(c Client, id string) bool
//@ fn (Client).IsSuspended(c, id) (r)
//@   props C09
//@   trusted
//@   noeffect
//@   ensures r == is_suspended(c, id)

// The live-status probe over the DAG's unix socket.
//@ ghost obs.cur_err error
//@ ghost obs.cur *model.Status
//@ fn (Client).GetCurrentStatus(c, workflow) (st, err)
//@   props C08 C16
//@   trusted
//@   modifies heap(alloc), ghost obs.cur_err, ghost obs.cur
//@   ensures obs.cur_err == err && obs.cur == st
//@   ensures err == nil ==> st != nil
