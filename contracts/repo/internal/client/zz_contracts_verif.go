//go:build verif

// Contracts for package client (comment-only file; no executable code).

package client

// ---------------------------------------------------------------------------------------------
// Interface-level contracts of client.Client.  Callers (daemon jobs, web handlers) are verified against
// these; the implementation methods of *client are verified against their own contracts below.  That the
// two agree is by inspection (trusted), DESIGN §8.
//
// Ghost effect channels: one counter per mutating operation plus the arguments it was last given.

//@ ghost cli.start int
//@ ghost cli.start_dag *dag.DAG
//@ ghost cli.start_params string
//@ ghost cli.start_quiet bool
//@ ghost cli.startasync int
//@ ghost cli.stop int
//@ ghost cli.stop_dag *dag.DAG
//@ ghost cli.restart int
//@ ghost cli.restart_dag *dag.DAG
//@ ghost cli.retry int
//@ ghost cli.retry_reqid string
//@ ghost cli.update int
//@ ghost cli.update_status *model.Status
//@ ghost cli.suspend int
//@ ghost cli.suspend_id string
//@ ghost cli.suspend_val bool
//@ ghost cli.save int
//@ ghost cli.save_id string
//@ ghost cli.save_spec string
//@ ghost cli.rename int
//@ ghost cli.rename_old string
//@ ghost cli.rename_new string
//@ ghost cli.create int
//@ ghost cli.delete int
// last observation made through the read-only operations
//@ ghost obs.latest_err error
//@ ghost obs.latest *model.Status

//@ fn (Client).GetLatestStatus(c, workflow) (st, err)
//@   props C09 C20
//@   trusted
//@   modifies ghost obs.latest_err, ghost obs.latest
//@   ensures obs.latest_err == err && obs.latest == st
//@   ensures err == nil ==> st != nil

//@ fn (Client).Start(c, workflow, opts) (err)
//@   props C09 C20
//@   trusted
//@   modifies ghost cli.start, ghost cli.start_dag, ghost cli.start_params, ghost cli.start_quiet
//@   ensures cli.start == old(cli.start) + 1 && cli.start_dag == workflow && cli.start_params == opts.Params && cli.start_quiet == opts.Quiet

//@ fn (Client).StartAsync(c, workflow, opts)
//@   props C20
//@   trusted
//@   modifies ghost cli.startasync, ghost cli.start_dag, ghost cli.start_params, ghost cli.start_quiet
//@   ensures cli.startasync == old(cli.startasync) + 1 && cli.start_dag == workflow && cli.start_params == opts.Params && cli.start_quiet == opts.Quiet

//@ fn (Client).Stop(c, workflow) (err)
//@   props C09 C20
//@   trusted
//@   modifies ghost cli.stop, ghost cli.stop_dag
//@   ensures cli.stop == old(cli.stop) + 1 && cli.stop_dag == workflow

//@ fn (Client).Restart(c, workflow, opts) (err)
//@   props C09
//@   trusted
//@   modifies ghost cli.restart, ghost cli.restart_dag
//@   ensures cli.restart == old(cli.restart) + 1 && cli.restart_dag == workflow

//@ ufunc is_suspended(c Client, id string) bool
//@ fn (Client).IsSuspended(c, id) (r)
//@   props C09
//@   trusted
//@   noeffect
//@   ensures r == is_suspended(c, id)

// The live-status probe over the DAG's unix socket.
//@ ghost obs.cur_err error
//@ ghost obs.cur *model.Status
//@ fn (Client).GetCurrentStatus(c, workflow) (st, err)
//@   props C08 C16
//@   trusted
//@   modifies heap(alloc), ghost obs.cur_err, ghost obs.cur
//@   ensures obs.cur_err == err && obs.cur == st
//@   ensures err == nil ==> st != nil

// ---------------------------------------------------------------------------------------------
// Implementation of the status queries (C08, C16).  "Live" means: the DAG's socket answered.

//@ fn (*client).GetCurrentStatus(c, workflow) (st, err)
//@   props C08 C16
//@   assert before sock.NewClient [C08,C16,C20 the_run_is_addressed_by_the_socket_of_its_dag_file] arg0 == sock_addr(workflow.Location)
//@   nullable c
//@   modifies heap(alloc), ghost sockq.calls, ghost sockq.err, ghost sockq.body, ghost sockq.method, ghost sockq.path, ghost obs.json_st, ghost obs.json_err, ghost obs.json_calls, ghost obs.json_ok, ghost obs.json_last_ok
//@   ensures [C16 probe_asks_the_status_endpoint] sockq.calls == old(sockq.calls) + 1 && sockq.method == "GET" && sockq.path == "/status"
//@   ensures [C08 live_answer_is_reported] sockq.err == nil ==> (st == obs.json_st && err == obs.json_err)
//@   ensures [C08 silent_socket_means_not_running] sockq.err != nil && !err_is(sockq.err, sock.ErrTimeout) ==>
//@        (err == nil && st != nil && st.Status == scheduler.StatusNone)
//@   ensures [C08,C16 timeout_is_not_taken_for_not_running] sockq.err != nil && err_is(sockq.err, sock.ErrTimeout) ==> err != nil
//@   ensures [C08 answer_or_error] err == nil ==> st != nil

//@ fn (*client).currentStatus(c, workflow) (st, err)
//@   props C08
//@   assert before sock.NewClient [C08,C16,C20 the_run_is_addressed_by_the_socket_of_its_dag_file] arg0 == sock_addr(workflow.Location)
//@   nullable c
//@   modifies heap(alloc), ghost sockq.calls, ghost sockq.err, ghost sockq.body, ghost sockq.method, ghost sockq.path, ghost obs.json_st, ghost obs.json_err, ghost obs.json_calls, ghost obs.json_ok, ghost obs.json_last_ok
//@   ensures [C08 live_answer_is_reported] sockq.err == nil ==> (st == obs.json_st && err == obs.json_err)
//@   ensures [C08 no_answer_no_live_status] sockq.err != nil ==> (st == nil && err != nil)
//@   ensures sockq.calls == old(sockq.calls) + 1 && sockq.method == "GET" && sockq.path == "/status"

// What the history holds for today (interface contract of the store; the JSON-file store is specified in jsondb).
//@ ghost obs.today_err error
//@ ghost obs.today *model.Status

//@ fn (*client).GetLatestStatus(c, workflow) (st, err)
//@   props C08 C09 C20
//@   requires c.dataStore != nil
//@   modifies heap(alloc), heap(model.Status.Status), heap(model.Status.StatusText), ghost sockq.calls, ghost sockq.err, ghost sockq.body, ghost sockq.method, ghost sockq.path,
//@            ghost obs.json_st, ghost obs.json_err, ghost obs.json_calls, ghost obs.json_ok, ghost obs.json_last_ok, ghost obs.today_err, ghost obs.today
//@   ensures [C08,C16,C20 live_status_wins] sockq.err == nil && obs.json_st != nil ==> (st == obs.json_st && err == nil)
//@   ensures [C08,C20 persisted_status_is_never_running] !(sockq.err == nil && obs.json_st != nil) && err == nil ==> (st != nil && st.Status != scheduler.StatusRunning)
//@   ensures [C08 persisted_status_is_what_was_recorded] !(sockq.err == nil && obs.json_st != nil) && obs.today_err == nil ==>
//@        (st == obs.today && err == nil)
//@   ensures [C08 no_history_means_not_started] !(sockq.err == nil && obs.json_st != nil) &&
//@        (err_is(obs.today_err, persistence.ErrNoStatusDataToday) || err_is(obs.today_err, persistence.ErrNoStatusData)) ==>
//@        (err == nil && st.Status == scheduler.StatusNone)

// ---------------------------------------------------------------------------------------------
// Definitions (C18): rename keeps the definition and carries its history; delete removes history then definition.

//@ fn (*client).Rename(e, oldID, newID) (err)
//@   props C18
//@   requires e.dataStore != nil
//@   modifies heap(alloc), ghost st.seq, ghost eff.hist, ghost dagst.find_calls, ghost dagst.find_name, ghost dagst.find_dag, ghost dagst.find_err,
//@            ghost dagst.renames, ghost dagst.rename_seq, ghost dagst.rename_old, ghost dagst.rename_new, ghost dagst.rename_err,
//@            ghost histst.renames, ghost histst.rename_seq, ghost histst.rename_old, ghost histst.rename_new
//@   assert before (persistence.DAGStore).Rename [C18 definition_renamed_as_asked] arg1 == oldID && arg2 == newID && dagst.find_name == oldID && dagst.find_err == nil
//@   assert before (persistence.HistoryStore).Rename [C18 history_follows_only_a_successful_rename] dagst.renames == old(dagst.renames) + 1 && dagst.rename_err == nil &&
//@        dagst.find_name == newID && dagst.find_err == nil && arg2 == dagst.find_dag.Location && arg1 == oldDAG.Location
//@   ensures [C18 failed_definition_rename_leaves_history_alone] dagst.renames == old(dagst.renames) + 1 && dagst.rename_err != nil ==> (err != nil && histst.renames == old(histst.renames))
//@   ensures [C18 unknown_dag_is_not_renamed] dagst.renames == old(dagst.renames) ==> (err != nil && histst.renames == old(histst.renames))
//@   ensures [C18 history_is_renamed_at_most_once] histst.renames == old(histst.renames) || histst.renames == old(histst.renames) + 1

//@ fn (*client).DeleteDAG(e, name, loc) (err)
//@   props C18
//@   requires e.dataStore != nil
//@   modifies heap(alloc), ghost st.seq, ghost eff.hist, ghost dagst.deletes, ghost dagst.delete_seq, ghost dagst.delete_name,
//@            ghost histst.removealls, ghost histst.removeall_seq, ghost histst.removeall_loc, ghost histst.removeall_err
//@   ensures [C18 history_of_this_dag_is_removed] histst.removealls == old(histst.removealls) + 1 && histst.removeall_loc == loc
//@   ensures [C18 definition_deleted_after_its_history] dagst.deletes != old(dagst.deletes) ==>
//@        (dagst.deletes == old(dagst.deletes) + 1 && dagst.delete_name == name && histst.removeall_err == nil && histst.removeall_seq < dagst.delete_seq)
//@   ensures [C18 nothing_else_is_deleted] histst.removeall_err == nil ==> dagst.deletes == old(dagst.deletes) + 1

//@ fn (*client).UpdateDAG(e, id, spec) (err)
//@   props C18 C20
//@   requires e.dataStore != nil
//@   modifies heap(alloc), ghost st.seq, ghost dagst.updates, ghost dagst.update_name, ghost dagst.update_spec
//@   ensures [C18 save_passes_the_text_through] dagst.updates == old(dagst.updates) + 1 && dagst.update_name == id && len(dagst.update_spec) == len(spec)

//@ fn (*client).CreateDAG(e, name) (id, err)
//@   props C18
//@   requires e.dataStore != nil
//@   modifies heap(alloc), ghost st.seq, ghost dagst.creates, ghost dagst.create_name
//@   ensures [C18 create_goes_through_the_store] dagst.creates == old(dagst.creates) + 1 && dagst.create_name == name

// ---------------------------------------------------------------------------------------------
// Interface contracts used by the web API handlers (C20).
//@ ghost obs.gs_calls int
//@ ghost obs.gs *DAGStatus
//@ ghost obs.gs_err error
//@ ghost obs.gs_id string
//@ ghost obs.byreq_calls int
//@ ghost obs.byreq *model.Status
//@ ghost obs.byreq_id string
//@ ghost obs.byreq_dag *dag.DAG
//@ ghost obs.byreq_err error
//@ ghost cli.update_dag *dag.DAG
//@ ghost cli.retry_dag *dag.DAG

//@ fn (Client).GetStatus(c, dagLocation) (st, err)
//@   props C20
//@   trusted
//@   modifies heap(alloc), ghost obs.gs_calls, ghost obs.gs, ghost obs.gs_err, ghost obs.gs_id
//@   ensures obs.gs_calls == old(obs.gs_calls) + 1 && obs.gs == st && obs.gs_err == err && obs.gs_id == dagLocation
//@   ensures st != nil && st.Status != nil && st.DAG != nil
//@ fn (Client).GetStatusByRequestID(c, workflow, requestID) (st, err)
//@   props C20
//@   trusted
//@   modifies heap(alloc), ghost obs.byreq_calls, ghost obs.byreq, ghost obs.byreq_id, ghost obs.byreq_dag, ghost obs.byreq_err
//@   ensures obs.byreq_calls == old(obs.byreq_calls) + 1 && obs.byreq == st && obs.byreq_id == requestID && obs.byreq_dag == workflow && obs.byreq_err == err
//@   ensures err == nil ==> st != nil
//@   ensures [assumed_recorded_node_entries_are_not_null] err == nil ==> (forall i int :: 0 <= i && i < len(st.Nodes) ==> st.Nodes[i] != nil)
//@ fn (Client).UpdateStatus(c, workflow, status) (err)
//@   props C20
//@   trusted
//@   modifies ghost cli.update, ghost cli.update_status, ghost cli.update_dag
//@   ensures cli.update == old(cli.update) + 1 && cli.update_status == status && cli.update_dag == workflow
//@ fn (Client).Retry(c, workflow, requestID) (err)
//@   props C20
//@   trusted
//@   modifies ghost cli.retry, ghost cli.retry_reqid, ghost cli.retry_dag
//@   ensures cli.retry == old(cli.retry) + 1 && cli.retry_reqid == requestID && cli.retry_dag == workflow
//@ fn (Client).ToggleSuspend(c, id, suspend) (err)
//@   props C20
//@   trusted
//@   modifies ghost cli.suspend, ghost cli.suspend_id, ghost cli.suspend_val
//@   ensures cli.suspend == old(cli.suspend) + 1 && cli.suspend_id == id && cli.suspend_val == suspend
//@ fn (Client).UpdateDAG(c, id, spec) (err)
//@   props C20
//@   trusted
//@   modifies ghost cli.save, ghost cli.save_id, ghost cli.save_spec
//@   ensures cli.save == old(cli.save) + 1 && cli.save_id == id && cli.save_spec == spec
//@ fn (Client).Rename(c, oldID, newID) (err)
//@   props C20
//@   trusted
//@   modifies ghost cli.rename, ghost cli.rename_old, ghost cli.rename_new
//@   ensures cli.rename == old(cli.rename) + 1 && cli.rename_old == oldID && cli.rename_new == newID

// Stop asks the run itself to stop: one POST /stop on the control socket of the DAG file.
//@ fn (*client).Stop(e, workflow) (err)
//@   props C05 C20
//@   nullable e
//@   modifies heap(alloc), ghost sockq.*
//@   assert before sock.NewClient [C05,C20 the_run_is_addressed_by_the_socket_of_its_dag_file] arg0 == sock_addr(workflow.Location)
//@   ensures [C05,C20 stop_is_one_post_to_the_stop_endpoint] sockq.calls == old(sockq.calls) + 1 && sockq.method == "POST" && sockq.path == "/stop" && err == sockq.err

// Implementation side (C20).
//@ fn (*client).UpdateStatus(e, workflow, status) (err)
//@   props C20
//@   assert before sock.NewClient [C08,C16,C20 the_run_is_addressed_by_the_socket_of_its_dag_file] arg0 == sock_addr(workflow.Location)
//@   requires e.dataStore != nil
//@   modifies heap(alloc), ghost eff.hist, ghost histst.updates, ghost histst.update_loc, ghost histst.update_id, ghost histst.update_status,
//@            ghost sockq.*, ghost obs.json*
//@   ensures [C20 live_run_is_not_edited] sockq.err == nil && obs.json_st != nil && obs.json_st.RequestID == status.RequestID &&
//@        obs.json_st.Status == scheduler.StatusRunning ==> (err != nil && histst.updates == old(histst.updates))
//@   ensures [C20 edit_is_written_to_the_addressed_run] histst.updates != old(histst.updates) ==>
//@        (histst.updates == old(histst.updates) + 1 && histst.update_loc == workflow.Location && histst.update_id == status.RequestID && histst.update_status == status)
//@   ensures [C20 unreachable_socket_is_not_taken_for_idle_on_timeout] sockq.err != nil && err_is(sockq.err, sock.ErrTimeout) ==> (err != nil && histst.updates == old(histst.updates))

//@ fn (*client).GetStatusByRequestID(e, workflow, requestID) (st, err)
//@   props C20 C08
//@   requires e.dataStore != nil
//@   modifies heap(alloc), heap(model.Status.Status), heap(model.Status.StatusText), ghost obs.find*, ghost sockq.*, ghost obs.json*
//@   ensures [C20 run_is_looked_up_by_its_request_id] obs.find_calls == old(obs.find_calls) + 1 && obs.find_loc == workflow.Location && obs.find_id == requestID
//@   ensures [C20 lookup_failure_is_reported] obs.find_err != nil ==> (err != nil && st == nil)
//@   ensures [C20 found_run_is_returned] obs.find_err == nil ==> (st == obs.find_sf.Status && err == nil)
//@   ensures [C20 answer_or_error] err == nil ==> st != nil
//@   ensures [C08 stale_running_record_of_another_run_is_relabelled_failed] obs.find_err == nil &&
//@        sockq.err == nil && obs.json_st != nil && obs.json_err == nil && obs.json_st.RequestID != requestID ==> st.Status != scheduler.StatusRunning

// Start: the command line handed to the new process carries the parameters unchanged inside one pair of quotes.
// escapeArg (rune loop over a strings.Builder) is a trusted contract audited by a bounded stand-in that executes it.
//@ ufunc escape_arg(s string) string
//@ fn escapeArg(input) (r)
//@   props C20 C11
//@   trusted
//@   noeffect
//@   ensures r == escape_arg(input)
//@   ensures [C20 parameters_without_line_breaks_are_not_altered] !contains(input, "\r") && !contains(input, "\n") ==> r == input
//@ ghost obs.cmd_name string
//@ ghost obs.cmd_args []string
//@ fn (*client).Start(e, workflow, opts) (err)
//@   props C20 C11
//@   modifies *
//@   assert before os/exec.Command [C20 start_command_line] arg0 == e.executable && len(arg1) >= 2 && arg1[0] == "start" && arg1[len(arg1) - 1] == workflow.Location &&
//@        (opts.Params != "" ==> (len(arg1) >= 4 && arg1[1] == "-p" && arg1[2] == "\"" + escape_arg(opts.Params) + "\"")) &&
//@        (opts.Params == "" ==> len(arg1) == ite(opts.Quiet, 3, 2))
//@   expect calls os/exec.Command >= 1

//@ fn New(dataStore, executable, workDir, lg) (c)
//@   props C10 C20
//@   modifies heap(alloc)
//@   nonnilresult
