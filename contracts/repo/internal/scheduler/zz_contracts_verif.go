//go:build verif

// Contracts for the scheduler daemon (comment-only file; no executable code).

package scheduler

// ---------------------------------------------------------------------------------------------
// Tick arithmetic

//@ ghost tick.count int             // number of run(t) calls made by start()
//@ ghost tick.last time.Time        // the instant passed to the last run(t)
//@ ghost invoked map[*entry]bool    // entries for which Invoke was spawned

//@ pred aligned(t time.Time) = t % time.Minute == 0

//@ fn (*Scheduler).nextTick(s, now) (r)
//@   props C09
//@   nullable s
//@   ensures [C09 next_tick] aligned(r) && now < r && r <= now + time.Minute
//@   ensures [C09 next_tick_aligned] aligned(now) ==> r == now + time.Minute

//@ fn now() (r)
//@   props C09
//@   trusted
//@   noeffect

// start(): run(t) is called for t0, t0+1min, t0+2min, ... whatever now() returns (late or bunched timers only
// change the argument of Reset) — no minute is missed and none is visited twice.
//@ fn (*Scheduler).start(s)
//@   props C09
//@   modifies *
//@   assert before (*Scheduler).run [C09 ticks_are_consecutive_minutes]
//@        aligned(arg1) && (tick.count > old(tick.count) ==> arg1 == tick.last + time.Minute)
//@   expect calls (*Scheduler).run >= 1
//@   loop 0 invariant [C09 tick_invariant] aligned(t) && (tick.count > old(tick.count) ==> t == tick.last + time.Minute)

// run(now): after the stable sort by Next, Invoke is spawned for exactly the entries that are not after the tick.
//@ fn (*Scheduler).run(s, now)
//@   props C09
//@   modifies *
//@   records tick.count = old(tick.count) + 1
//@   records tick.last = now
//@   expect calls go (*Scheduler).run$2 >= 1
//@   assert before (entryReader).Read [C09 reads_one_second_before_tick] arg1 == now - time.Second
//@   assert before go [C09 spawned_is_due] !(arg0.Next > now) && arg0.Next != 0 && arg0 == entries[idx + 1]
//@   loop 0 invariant [C09 sorted_by_next] forall i int, j int :: 0 <= i && i < j && j < len(entries) ==> !(entries[j].Next < entries[i].Next)
//@   loop 0 invariant [C09 visited_prefix_is_due] forall k int :: 0 <= k && k <= idx ==> !(entries[k].Next > now)
//@   loop 0 invariant [C09 due_prefix_spawned] forall k int :: 0 <= k && k <= idx ==> (entries[k].Next != 0 ==> invoked[entries[k]])
//@   loop 0 invariant [C09 only_due_spawned] forall e *entry :: invoked[e] ==> (old(invoked[e]) || (!(e.Next > now) && e.Next != 0))
//@   ensures [C09 spawned_only_if_due] forall e *entry :: invoked[e] ==> (old(invoked[e]) || (!(e.Next > now) && e.Next != 0))
//@   ensures [C09 every_due_entry_spawned] obs.read_err == nil ==> forall k int :: 0 <= k && k < len(obs.read_entries) ==>
//@        (!(obs.read_entries[k].Next > now) && obs.read_entries[k].Next != 0 ==> invoked[obs.read_entries[k]])

// the comparator handed to sort.SliceStable
//@ fn (*Scheduler).run$1(i, j) (r)
//@   props C09
//@   requires 0 <= i && i < len(entries) && 0 <= j && j < len(entries)
//@   ensures [C09 comparator_is_next_before] r <==> entries[i].Next < entries[j].Next

// the goroutine that invokes one entry
//@ fn (*Scheduler).run$2(e)
//@   props C09
//@   modifies *
//@   spawn modifies ghost invoked
//@   spawn ensures invoked == upd(old(invoked), e, true)
//@   expect calls (*entry).Invoke >= 1
//@   assert before (*entry).Invoke [C09 the_spawned_entry_is_the_one_invoked] arg0 == e
//@   ensures [C09 a_spawned_entry_is_invoked_exactly_once] job.start + job.stop + job.restart <= old(job.start + job.stop + job.restart) + 1 &&
//@        (e.Job != nil && (e.EntryType == entryTypeStart || e.EntryType == entryTypeStop || e.EntryType == entryTypeRestart) ==>
//@           job.start + job.stop + job.restart == old(job.start + job.stop + job.restart) + 1)

//@ ghost obs.read_err error
//@ ghost obs.read_entries []*entry

//@ fn (entryReader).Read(er, now) (entries, err)
//@   props C09
//@   trusted
//@   modifies ghost obs.read_err, ghost obs.read_entries
//@   ensures obs.read_err == err && obs.read_entries == entries
//@   ensures forall k int :: 0 <= k && k < len(entries) ==> entries[k] != nil

//@ fn (entryType).String(e) (r)
//@   props C09
//@   pure

//@ fn (job).String(j) (r)
//@   props C09
//@   trusted
//@   pure

// Invoke dispatches by kind.
//@ ghost job.start int
//@ ghost job.stop int
//@ ghost job.restart int
//@ fn (job).Start(j) (err)
//@   props C09
//@   trusted
//@   modifies ghost job.start
//@   ensures job.start == old(job.start) + 1
//@ fn (job).Stop(j) (err)
//@   props C09
//@   trusted
//@   modifies ghost job.stop
//@   ensures job.stop == old(job.stop) + 1
//@ fn (job).Restart(j) (err)
//@   props C09
//@   trusted
//@   modifies ghost job.restart
//@   ensures job.restart == old(job.restart) + 1

//@ fn (*entry).Invoke(e) (err)
//@   props C09
//@   modifies ghost job.start, ghost job.stop, ghost job.restart
//@   ensures [C09 dispatch_by_kind]
//@        job.start   == old(job.start)   + ite(e.Job != nil && e.EntryType == entryTypeStart, 1, 0) &&
//@        job.stop    == old(job.stop)    + ite(e.Job != nil && e.EntryType == entryTypeStop, 1, 0) &&
//@        job.restart == old(job.restart) + ite(e.Job != nil && e.EntryType == entryTypeRestart, 1, 0)

// ---------------------------------------------------------------------------------------------
// Jobs: start guard, stop guard, restart

//@ sfunc trunc_minute(t time.Time) time.Time = t - (t % time.Minute)

//@ fn (*jobImpl).Start(j) (err)
//@   props C09 C08
//@   modifies ghost obs.latest_err, ghost obs.latest, ghost cli.start, ghost cli.start_dag, ghost cli.start_params, ghost cli.start_quiet
//@   ensures [C09 start_guard] (cli.start == old(cli.start) + 1) <==>
//@        (obs.latest_err == nil && obs.latest.Status != dagscheduler.StatusRunning &&
//@         (!parse_ok(obs.latest.StartedAt) || trunc_minute(parse_time(obs.latest.StartedAt)) < j.Next))
//@   ensures [C09 start_at_most_once] cli.start == old(cli.start) || cli.start == old(cli.start) + 1
//@   ensures [C09 start_addresses_dag] cli.start == old(cli.start) + 1 ==> cli.start_dag == j.DAG && cli.start_quiet

//@ fn (*jobImpl).Stop(j) (err)
//@   props C09
//@   modifies ghost obs.latest_err, ghost obs.latest, ghost cli.stop, ghost cli.stop_dag
//@   ensures [C09 stop_guard] (cli.stop == old(cli.stop) + 1) <==> (obs.latest_err == nil && obs.latest.Status == dagscheduler.StatusRunning)
//@   ensures [C09 stop_at_most_once] cli.stop == old(cli.stop) || (cli.stop == old(cli.stop) + 1 && cli.stop_dag == j.DAG)

//@ fn (*jobImpl).Restart(j) (err)
//@   props C09
//@   modifies ghost cli.restart, ghost cli.restart_dag
//@   ensures [C09 restart_always] cli.restart == old(cli.restart) + 1 && cli.restart_dag == j.DAG

// ---------------------------------------------------------------------------------------------
// Lemmas connecting the spawn rule to "the schedule matches this minute" (assumed contract of cron Next).

//@ lemma tick_iff_match(s cron.Schedule, t time.Time) props C09:
//@      aligned(t) && cron_next(s, t - time.Second) != 0 ==>
//@      (!(cron_next(s, t - time.Second) > t) <==> cron_matches(s, t))
//@ lemma no_match_when_next_is_zero(s cron.Schedule, t time.Time) props C09:
//@      aligned(t) && cron_next(s, t - time.Second) == 0 ==> !cron_matches(s, t)

// ---------------------------------------------------------------------------------------------
// Entry reader: one entry per (non-suspended DAG, schedule, kind), Next = Parsed.Next(now), job bound to the DAG

// What a job is about, read off the one implementation there is (the interface contract below is checked against the
// implementation's contract: refinement).
//@ sfunc job_dag(j job) *dag.DAG = asType(j, "*jobImpl").DAG
//@ sfunc job_next(j job) time.Time = asType(j, "*jobImpl").Next

//@ fn (jobCreator).CreateJob(jc, workflow, next) (j)
//@   props C09
//@   trusted
//@   noeffect
//@   ensures j != nil && isType(j, "*jobImpl") && job_dag(j) == workflow && job_next(j) == next

//@ fn (jobCreatorImpl).CreateJob(jf, workflow, next) (j)
//@   props C09
//@   ensures [C09 job_is_bound_to_dag_and_minute] isType(j, "*jobImpl") && asType(j, "*jobImpl") != nil &&
//@        asType(j, "*jobImpl").DAG == workflow && asType(j, "*jobImpl").Next == next && asType(j, "*jobImpl").Client == jf.Client

//@ fn (*entryReaderImpl).Read$1(workflow, s, e)
//@   props C09
//@   requires er != nil && er.jobCreator != nil
//@   modifies entries, heap(alloc)
//@   ensures [C09 one_entry_per_schedule] len(entries) == old(len(entries)) + len(s)
//@   ensures [C09 earlier_entries_kept] forall k int :: 0 <= k && k < old(len(entries)) ==> entries[k] == old(entries[k])
//@   ensures [C09 entry_fields] forall k int :: old(len(entries)) <= k && k < len(entries) ==>
//@        (entries[k] != nil && !wasAllocated(entries[k]) && entries[k].EntryType == e &&
//@         entries[k].Next == cron_next(s[k - old(len(entries))].Parsed, now) &&
//@         entries[k].Job != nil && job_dag(entries[k].Job) == workflow && job_next(entries[k].Job) == entries[k].Next)
//@   loop 0 invariant len(entries) == old(len(entries)) + idx + 1
//@   loop 0 invariant forall k int :: 0 <= k && k < old(len(entries)) ==> entries[k] == old(entries[k])
//@   loop 0 invariant [a] forall k int :: old(len(entries)) <= k && k < len(entries) ==> (entries[k] != nil && allocated(entries[k]))
//@   loop 0 invariant [b] forall k int :: old(len(entries)) <= k && k < len(entries) ==> !wasAllocated(entries[k])
//@   loop 0 invariant [c] forall k int :: old(len(entries)) <= k && k < len(entries) ==> entries[k].EntryType == e
//@   loop 0 invariant [d] forall k int :: old(len(entries)) <= k && k < len(entries) ==>
//@         entries[k].Next == cron_next(s[k - old(len(entries))].Parsed, now)
//@   loop 0 invariant [e] forall k int :: old(len(entries)) <= k && k < len(entries) ==>
//@        (entries[k].Job != nil && job_dag(entries[k].Job) == workflow && job_next(entries[k].Job) == entries[k].Next)

//@ fn (*entryReaderImpl).Read(er, now) (res, err)
//@   props C09
//@   requires er.jobCreator != nil && er.client != nil
//@   modifies heap(alloc)
//@   expect calls (*entryReaderImpl).Read$1 >= 3
//@   assert before (*entryReaderImpl).Read$1 [C09 suspended_dags_contribute_nothing] !is_suspended(er.client, id)
//@   assert before (*entryReaderImpl).Read$1#0 [C09 start_schedules] arg0 == workflow && arg1 == workflow.Schedule && arg2 == entryTypeStart
//@   assert before (*entryReaderImpl).Read$1#1 [C09 stop_schedules] arg0 == workflow && arg1 == workflow.StopSchedule && arg2 == entryTypeStop
//@   assert before (*entryReaderImpl).Read$1#2 [C09 restart_schedules] arg0 == workflow && arg1 == workflow.RestartSchedule && arg2 == entryTypeRestart
//@   ensures [C09 read_never_fails] err == nil
//@   ensures [C09 entries_are_present] forall k int :: 0 <= k && k < len(res) ==> res[k] != nil
//@   loop 0 invariant forall k int :: 0 <= k && k < len(entries) ==> entries[k] != nil
//@   loop 0 step [C09 unsuspended_dag_gets_all_its_entries] len(entries) == iter(len(entries)) ||
//@        (exists d *dag.DAG :: len(entries) == iter(len(entries)) + len(d.Schedule) + len(d.StopSchedule) + len(d.RestartSchedule))

// ---------------------------------------------------------------------------------------------
// The DAG table of the entry reader: a file that does not load never disturbs the entries of the other files,
// never aborts initialisation or the watch loop, and never leaves the table lock held.

//@ fn (*entryReaderImpl).initDags(er) (err)
//@   props C09
//@   requires er.dags != nil
//@   modifies contents(er.dags), heap(alloc), heap(map(string, any)), heap(elems(any)), ghost obs.meta_calls, ghost obs.meta_err, ghost obs.meta_dag,
//@            ghost env.key, ghost env.val, ghost obs.parsed, ghost obs.exists_calls, ghost obs.exists, ghost obs.exists_path, ghost obs.stat_err, ghost obs.stat_path
//@   ensures [C19 scheduler_start_up_has_no_side_effects] eff.exec == old(eff.exec) && eff.env == old(eff.env)
//@   ensures [C09 init_survives_bad_files] obs.meta_calls != old(obs.meta_calls) ==> err == nil
//@   loop 0 step [C09 bad_file_leaves_table_unchanged] obs.meta_calls != iter(obs.meta_calls) && obs.meta_err != nil ==>
//@        (forall k string :: has(er.dags, k) == iter(has(er.dags, k)) && er.dags[k] == iter(er.dags[k]))
//@   loop 0 step [C09 good_file_is_registered_under_its_name] obs.meta_calls != iter(obs.meta_calls) && obs.meta_err == nil ==>
//@        (exists k string :: has(er.dags, k) && er.dags[k] == obs.meta_dag &&
//@             (forall o string :: o != k ==> (has(er.dags, o) == iter(has(er.dags, o)) && er.dags[o] == iter(er.dags[o]))))
//@   loop 0 step [C09 one_load_per_file] obs.meta_calls == iter(obs.meta_calls) || obs.meta_calls == iter(obs.meta_calls) + 1

//@ fn (*entryReaderImpl).watchDags(er, done)
//@   props C09
//@   requires er.dags != nil
//@   modifies *
//@   ensures [C09 watcher_exits_without_the_lock] lk.depth == old(lk.depth)
//@   loop 0 invariant [C09 no_lock_held_between_events] lk.depth == old(lk.depth)
//@   loop 0 invariant er == old(er) && er.dags == old(er.dags)
//@   loop 0 step [C09 bad_file_leaves_table_unchanged] obs.meta_calls != iter(obs.meta_calls) && obs.meta_err != nil ==>
//@        (forall k string :: has(er.dags, k) == iter(has(er.dags, k)) && er.dags[k] == iter(er.dags[k]))
//@   loop 0 step [C09 event_touches_one_entry] exists k string :: forall o string :: o != k ==>
//@        (has(er.dags, o) == iter(has(er.dags, o)) && er.dags[o] == iter(er.dags[o]))
//@   loop 0 step [C09 loaded_file_is_registered] obs.meta_calls != iter(obs.meta_calls) && obs.meta_err == nil ==>
//@        (exists k string :: has(er.dags, k) && er.dags[k] == obs.meta_dag)
