//go:build verif

// Contracts for package patternutil (comment-only file; no executable code).

package patternutil

//@ fn WithExactMatch() (o)
//@   props C13
//@   trusted
//@   modifies heap(alloc)
//@   nonnilresult
//@ fn WithExactMatch$1(o)
//@   props C13
//@   safety
//@   modifies o.exactMatch

//@ fn matchLine(line, literalPatterns, regexps, opts) (r)
//@   props C13
//@   safety
//@   requires forall i int :: 0 <= i && i < len(regexps) ==> regexps[i] != nil
//@ fn MatchPatternScanner(scanner, patterns, opts) (r)
//@   props C13
//@   safety
//@   requires forall i int :: 0 <= i && i < len(opts) ==> opts[i] != nil
//@   modifies heap(alloc)
//@   loop 1 invariant forall i int :: 0 <= i && i < len(regexps) ==> regexps[i] != nil
//@   loop 1 invariant options != nil && options.logger != nil
//@ fn MatchPattern(content, patterns, opts) (r)
//@   props C13
//@   safety
//@   requires forall i int :: 0 <= i && i < len(opts) ==> opts[i] != nil
//@   modifies heap(alloc)
