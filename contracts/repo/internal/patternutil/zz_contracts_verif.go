//go:build verif

// Contracts for package patternutil (comment-only file; no executable code).

package patternutil

//@ fn WithExactMatch() (o)
//@   props C13
//@   trusted
//@   modifies heap(alloc)
//@   nonnilresult
//@ fn WithExactMatch$1(o)
//@   props C13
//@   safety
//@   modifies o.exactMatch

//@ fn matchLine(line, literalPatterns, regexps, opts) (r)
//@   props C13
//@   safety
//@   requires forall i int :: 0 <= i && i < len(regexps) ==> regexps[i] != nil
// What "the value meets the expectation" means where a precondition is evaluated (C02, C04): the value is read line
// by line; a value without any line — the empty text — meets an empty expectation.  (Everything else about the
// matching — exact or substring comparison per line, `re:` patterns — is exercised on the real function by the
// bounded stand-in dag.evalCondition.)
//@ fn MatchPatternScanner(scanner, patterns, opts) (r)
//@   props C13 C02 C04
//@   safety
//@   requires forall i int :: 0 <= i && i < len(opts) ==> opts[i] != nil
//@   modifies heap(alloc), ghost scan.pos
//@   ensures [C02,C04 an_empty_value_meets_an_empty_expectation]
//@        len(patterns) == 1 && patterns[0] == "" && old(scan.pos[scanner]) == 0 && line_count(scan.text[scanner]) == 0 ==> r
//@   ensures [C02,C04 nothing_matches_without_a_pattern] len(patterns) == 0 ==> !r
//@   ensures forall o *bufio.Scanner :: o != scanner ==> scan.pos[o] == old(scan.pos[o])
//@   loop 1 invariant forall i int :: 0 <= i && i < len(regexps) ==> regexps[i] != nil
//@   loop 1 invariant options != nil && options.logger != nil
//@   loop 1 invariant scan.pos[scanner] == old(scan.pos[scanner])
//@   loop 1 invariant idx == -1 ==> len(literalPatterns) == 0
//@   loop 1 invariant idx >= 0 && !hasPrefix(patterns[0], "re:") ==> (len(literalPatterns) >= 1 && literalPatterns[0] == patterns[0])
//@   loop 2 invariant forall k int :: 0 <= k && k <= idx ==> literalPatterns[k] != ""
//@   loop 4 invariant forall o *bufio.Scanner :: o != scanner ==> scan.pos[o] == old(scan.pos[o])
//@ fn MatchPattern(content, patterns, opts) (r)
//@   props C13 C02 C04
//@   safety
//@   requires forall i int :: 0 <= i && i < len(opts) ==> opts[i] != nil
//@   modifies heap(alloc)
//@   ensures [C02,C04 an_empty_value_meets_an_empty_expectation] content == "" && len(patterns) == 1 && patterns[0] == "" ==> r
