//go:build verif

// Contracts for package sock (comment-only file; no executable code).

package sock

//@ fn NewServer(addr, handlerFunc, lg) (srv, err)
//@   props C03 C14 C16
//@   trusted
//@   modifies heap(alloc)
//@   ensures err == nil ==> srv != nil

//@ fn (*Server).Serve(srv, listen) (err)
//@   props C03 C14 C16
//@   trusted
//@   modifies ghost eff.sock
//@   ensures eff.sock == old(eff.sock) + 1

//@ fn (*Server).Shutdown(srv) (err)
//@   props C03 C14 C16
//@   trusted
//@   modifies ghost eff.sock
