//go:build verif

// Contracts for package sock (comment-only file; no executable code).

package sock

//@ fn NewServer(addr, handlerFunc, lg) (srv, err)
//@   props C03 C14 C16
//@   trusted
//@   modifies heap(alloc)
//@   ensures err == nil ==> srv != nil

//@ fn (*Server).Serve(srv, listen) (err)
//@   props C03 C14 C16
//@   trusted
//@   modifies ghost eff.sock
//@   ensures eff.sock == old(eff.sock) + 1

//@ fn (*Server).Shutdown(srv) (err)
//@   props C03 C14 C16
//@   trusted
//@   modifies ghost eff.sock

// One request over a DAG's unix socket: the ghost record is what the peer (if any) answered.
//@ ghost sockq.calls int
//@ ghost sockq.err error
//@ ghost sockq.body string
//@ ghost sockq.method string
//@ ghost sockq.path string
//@ fn NewClient(addr) (c)
//@   props C08 C16 C20
//@   trusted
//@   modifies heap(alloc)
//@   nonnilresult
//@ fn (*Client).Request(c, method, url) (ret, err)
//@   props C08 C16 C20
//@   trusted
//@   modifies ghost sockq.calls, ghost sockq.err, ghost sockq.body, ghost sockq.method, ghost sockq.path
//@   ensures sockq.calls == old(sockq.calls) + 1 && sockq.err == err && sockq.body == ret && sockq.method == method && sockq.path == url
