//go:build verif

// Contracts for package frontend (comment-only file; no executable code).

package frontend

// From the configuration to the server (C17): token authentication is on exactly when the configuration enables it —
// with whatever token it names, also an empty one, which then admits nobody — and likewise basic authentication with
// the configured user and password.
//@ fn New(cfg, lg, cli) (s)
//@   props C17
//@   requires cfg != nil
//@   modifies *
//@   expect calls frontend/server.New >= 1
//@   assert before frontend/server.New [C17 token_auth_is_on_iff_configured] (arg0.AuthToken != nil <==> cfg.IsAuthToken) &&
//@        (arg0.AuthToken != nil ==> arg0.AuthToken.Token == cfg.AuthToken)
//@   assert before frontend/server.New [C17 basic_auth_is_on_iff_configured] (arg0.BasicAuth != nil <==> cfg.IsBasicAuth) &&
//@        (arg0.BasicAuth != nil ==> (arg0.BasicAuth.Username == cfg.BasicAuthUsername && arg0.BasicAuth.Password == cfg.BasicAuthPassword))
