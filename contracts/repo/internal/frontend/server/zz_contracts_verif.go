//go:build verif

// Contracts for package server (comment-only file; no executable code).

package server

// The server keeps the authentication settings it was given and hands exactly those to the middleware package
// before it serves anything (C17).
//@ fn New(params) (s)
//@   props C17
//@   modifies heap(alloc)
//@   ensures [C17 server_keeps_the_auth_settings] s != nil && s.authToken == params.AuthToken && s.basicAuth == params.BasicAuth

//@ fn (*Server).Serve(svr, ctx) (err)
//@   props C17
//@   modifies *
//@   expect calls frontend/middleware.Setup >= 1
//@   assert before frontend/middleware.Setup [C17 middleware_gets_the_token_setting] (arg0.AuthToken != nil <==> svr.authToken != nil) &&
//@        (arg0.AuthToken != nil ==> arg0.AuthToken.Token == svr.authToken.Token)
//@   assert before frontend/middleware.Setup [C17 middleware_gets_the_basic_auth_setting] (arg0.AuthBasic != nil <==> svr.basicAuth != nil) &&
//@        (arg0.AuthBasic != nil ==> (arg0.AuthBasic.Username == svr.basicAuth.Username && arg0.AuthBasic.Password == svr.basicAuth.Password))

// defaultRoutes registers the static routes on the router it is given (an opaque chi object) and returns it.
//@ fn (*Server).defaultRoutes(svr, r) (h)
//@   props C17
//@   trusted
//@   modifies heap(alloc)
