//go:build verif

// Contracts for package middleware (comment-only file; no executable code).
// C17: with authentication configured, the inner (API) handler is reached only by a request that presents the
// configured basic credentials or the configured token.

package middleware

//@ fn basicAuthFailed(w, realm)
//@   props C17
//@   modifies heap(alloc), ghost resp.writes, ghost resp.code
//@   ensures [C17 refusal_is_401] resp.writes == old(resp.writes) + 1 && resp.code == 401
//@ fn tokenAuthFailed(w, realm)
//@   props C17
//@   modifies heap(alloc), ghost resp.writes, ghost resp.code
//@   ensures [C17 refusal_is_401] resp.writes == old(resp.writes) + 1 && resp.code == 401

//@ fn withAuthenticated(ctx) (r)
//@   props C17
//@   trusted
//@   modifies heap(alloc)
//@   ensures ctx_auth(r)
//@ fn isAuthenticated(ctx) (r)
//@   props C17
//@   trusted
//@   noeffect
//@   ensures r == ctx_auth(ctx)

//@ pred bearer_shaped(h string) = split_len(h, " ") >= 2 && split_at(h, " ", 0) == "Bearer"
//@ pred presents_token(h string, token string) = split_len(h, " ") >= 2 && split_at(h, " ", 1) != "" && split_at(h, " ", 1) == token
//@ pred presents_basic(h string, creds map[string]string) = ba_ok(h) && has(creds, ba_user(h)) && creds[ba_user(h)] == ba_pass(h)
//@ fn skipBasicAuth(authHeader) (r)
//@   props C17
//@   ensures [C17 basic_layer_is_skipped_only_for_bearer_requests_when_a_token_layer_exists] r <==> (authToken != nil && len(authHeader) >= 2 && authHeader[0] == "Bearer")
//@ fn skipTokenAuth(r) (s)
//@   props C17
//@   ensures [C17 token_layer_is_skipped_only_for_requests_the_basic_layer_authenticated] s == ctx_auth(r.ctx)

// The basic-auth layer: free variables creds, next, realm.
//@ fn BasicAuth$1$1(w, r)
//@   props C17
//@   modifies heap(alloc), ghost eff.next, ghost inner.h, ghost inner.req, ghost resp.writes, ghost resp.code
//@   ensures [C17 at_most_one_inner_call] eff.next == old(eff.next) || eff.next == old(eff.next) + 1
//@   ensures [C17 basic_layer_passes_only_bearer_shaped_or_valid_credentials] eff.next == old(eff.next) + 1 ==>
//@        ((authToken != nil && bearer_shaped(hdr_get(r.Header, "Authorization"))) ||
//@         (presents_basic(hdr_get(r.Header, "Authorization"), creds) && ctx_auth(inner.req.ctx)))
//@   ensures [C17 inner_handler_is_the_configured_next] eff.next == old(eff.next) + 1 ==> (inner.h == next && hdr_get(inner.req.Header, "Authorization") == hdr_get(r.Header, "Authorization"))
//@   ensures [C17 bearer_request_is_passed_on_unchanged] eff.next == old(eff.next) + 1 && !presents_basic(hdr_get(r.Header, "Authorization"), creds) ==> inner.req == r
//@   ensures [C17 refused_request_gets_401_and_reaches_nothing] eff.next == old(eff.next) ==> (resp.writes == old(resp.writes) + 1 && resp.code == 401)
//@   ensures [C17 valid_basic_credentials_always_pass] presents_basic(hdr_get(r.Header, "Authorization"), creds) ==> eff.next == old(eff.next) + 1

// The token layer: free variables token, next, realm.
//@ fn TokenAuth$1$1(w, r)
//@   props C17
//@   modifies heap(alloc), ghost eff.next, ghost inner.h, ghost inner.req, ghost resp.writes, ghost resp.code
//@   ensures [C17 at_most_one_inner_call] eff.next == old(eff.next) || eff.next == old(eff.next) + 1
//@   ensures [C17 token_layer_passes_only_authenticated_requests_or_the_token] eff.next == old(eff.next) + 1 ==>
//@        (ctx_auth(r.ctx) || presents_token(hdr_get(r.Header, "Authorization"), token))
//@   ensures [C17 inner_handler_is_the_configured_next] eff.next == old(eff.next) + 1 ==> (inner.h == next && inner.req == r)
//@   ensures [C17 refused_request_gets_401_and_reaches_nothing] eff.next == old(eff.next) ==> (resp.writes == old(resp.writes) + 1 && resp.code == 401)
//@   ensures [C17 the_token_always_passes] presents_token(hdr_get(r.Header, "Authorization"), token) ==> eff.next == old(eff.next) + 1

// ---------------------------------------------------------------------------------------------
// Assembly of the chain: prefix check outermost, then basic auth (when configured), then token auth (when
// configured), then the remaining middlewares and the API.  Each constructor records what it wrapped.
//@ ghost chain.token_calls int
//@ ghost chain.token_in net/http.Handler
//@ ghost chain.token_out net/http.Handler
//@ ghost chain.token_secret string
//@ ghost chain.basic_calls int
//@ ghost chain.basic_in net/http.Handler
//@ ghost chain.basic_out net/http.Handler
//@ ghost chain.prefix_in net/http.Handler
//@ ghost chain.prefix_calls int
//@ ghost chain.open net/http.Handler          // the unauthenticated part of the chain (recoverer / logger / request id / cors / API)

//@ fn TokenAuth(realm, token) (mk)
//@   props C17
//@   modifies heap(alloc)
//@   records chain.token_secret = token
//@   returnsclosure TokenAuth$1
//@ fn TokenAuth$1(next) (h)
//@   props C17
//@   modifies heap(alloc)
//@   records chain.token_calls = old(chain.token_calls) + 1
//@   records chain.token_in = next
//@   records chain.token_out = h
//@ fn BasicAuth(realm, creds) (mk)
//@   props C17
//@   modifies heap(alloc)
//@   returnsclosure BasicAuth$1
//@ fn BasicAuth$1(next) (h)
//@   props C17
//@   modifies heap(alloc)
//@   records chain.basic_calls = old(chain.basic_calls) + 1
//@   records chain.basic_in = next
//@   records chain.basic_out = h
//@ fn prefixChecker(next) (h)
//@   props C17
//@   modifies heap(alloc)
//@   records chain.prefix_calls = old(chain.prefix_calls) + 1
//@   records chain.prefix_in = next
//@ fn cors(h) (r)
//@   props C17
//@   modifies heap(alloc)
//@ fn logging(next) (h)
//@   props C17
//@   trusted
//@   modifies heap(alloc)

// Setup stores the options in the package's settings, which SetupGlobalMiddleware reads when the chain is assembled.
//@ fn Setup(opts) 
//@   props C17
//@   modifies defaultHandler, authBasic, authToken, appLogger, basePath
//@   ensures [C17 settings_are_the_given_options] authToken == opts.AuthToken && authBasic == opts.AuthBasic

//@ fn SetupGlobalMiddleware(handler) (h)
//@   props C17
//@   modifies heap(alloc), heap(map(string, string)), ghost chain.*
//@   assert before TokenAuth [C17 token_layer_uses_the_configured_token] arg1 == authToken.Token
//@   assert before BasicAuth$1 [C17 basic_layer_wraps_the_token_layer] authToken != nil ==> (chain.token_calls == old(chain.token_calls) + 1 && arg0 == chain.token_out)
//@   assert before prefixChecker [C17 api_requests_enter_through_the_outermost_auth_layer]
//@        (authBasic != nil ==> (chain.basic_calls == old(chain.basic_calls) + 1 && arg0 == chain.basic_out)) &&
//@        (authBasic == nil && authToken != nil ==> (chain.token_calls == old(chain.token_calls) + 1 && arg0 == chain.token_out)) &&
//@        (authBasic == nil && authToken == nil ==> (chain.basic_calls == old(chain.basic_calls) && chain.token_calls == old(chain.token_calls)))
//@   ensures [C17 every_configured_layer_is_installed_exactly_once]
//@        chain.token_calls == old(chain.token_calls) + ite(authToken != nil, 1, 0) && chain.basic_calls == old(chain.basic_calls) + ite(authBasic != nil, 1, 0) &&
//@        chain.prefix_calls == old(chain.prefix_calls) + 1
//@   ensures [C17 token_layer_sits_inside_the_basic_layer] authToken != nil && authBasic != nil ==> chain.basic_in == chain.token_out

// Routing: everything under /api goes to the (authenticated) chain, everything else to the static handler.
//@ fn prefixChecker$1$1(w, r)
//@   props C17
//@   requires r.URL != nil
//@   modifies ghost eff.next, ghost inner.h, ghost inner.req
//@   ensures [C17 api_paths_go_through_the_auth_chain] eff.next == old(eff.next) + 1 && inner.req == r &&
//@        inner.h == ite(hasPrefix(r.URL.Path, "/api"), next, defaultHandler)
//@ fn cors$1(w, r)
//@   props C17
//@   modifies ghost eff.next, ghost inner.h, ghost inner.req
//@   ensures [C17 cors_layer_passes_the_request_on_unchanged] eff.next == old(eff.next) || (eff.next == old(eff.next) + 1 && inner.h == h && inner.req == r)

// Composition of the two layer contracts (what reaches the API handler), and the standard-form completeness facts.
//@ lemma both_layers_admit_only_a_presented_secret(h string, token string, tokenConfigured bool, pb bool, auth0 bool, auth1 bool) props C17:
//@      (!auth0 &&
//@       ((tokenConfigured && bearer_shaped(h) && !pb && auth1 == auth0) || (pb && auth1)) &&
//@       (auth1 || presents_token(h, token)))
//@      ==> (pb || presents_token(h, token))
//@ lemma standard_bearer_header_presents_the_token(t string) props C17:
//@      t != "" && !contains(t, " ") ==> (presents_token("Bearer " + t, t) && bearer_shaped("Bearer " + t))
