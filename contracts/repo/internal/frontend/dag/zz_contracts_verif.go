//go:build verif

// Contracts for package dag (web API handlers; comment-only file; no executable code).
// C20: control actions through the API respect the state of the run.

package dag

//@ fn newBadRequestError(err) (r)
//@   props C20
//@   requires err != nil
//@   modifies heap(alloc)
//@   ensures r != nil && r.Code == 400
//@ fn newInternalError(err) (r)
//@   props C20
//@   requires err != nil
//@   modifies heap(alloc)
//@   ensures r != nil && r.Code == 500

//@ pred cli_untouched() twostate = cli.start == old(cli.start) && cli.startasync == old(cli.startasync) && cli.stop == old(cli.stop) &&
//@      cli.restart == old(cli.restart) && cli.retry == old(cli.retry) && cli.update == old(cli.update) && cli.suspend == old(cli.suspend) &&
//@      cli.save == old(cli.save) && cli.rename == old(cli.rename) && cli.create == old(cli.create) && cli.delete == old(cli.delete)

// A manual status edit: refused while the DAG is running or when request id / step are missing; otherwise exactly
// the last node named like the step of the run with that request id gets the new status, nothing else changes.
//@ fn (*Handler).processUpdateStatus(h, params, dagStatus, to) (resp, cerr)
//@   props C20
//@   requires h.client != nil && dagStatus.Status != nil
//@   modifies heap(alloc), heap(persistence/model.Node.Status), heap(persistence/model.Node.StatusText), ghost cli.update, ghost cli.update_status, ghost cli.update_dag, ghost obs.byreq*
//@   ensures [C20 edit_refused_while_running] cli.update != old(cli.update) ==> dagStatus.Status.Status != scheduler.StatusRunning
//@   ensures [C20 edit_needs_run_and_step] cli.update != old(cli.update) ==> (params.Body.RequestID != "" && params.Body.Step != "")
//@   ensures [C20 edit_addresses_the_run_with_that_request_id] cli.update != old(cli.update) ==>
//@        (cli.update == old(cli.update) + 1 && obs.byreq_calls == old(obs.byreq_calls) + 1 && obs.byreq_id == params.Body.RequestID && obs.byreq_err == nil &&
//@         obs.byreq_dag == dagStatus.DAG && cli.update_status == obs.byreq && cli.update_dag == dagStatus.DAG)
//@   ensures [C20 edit_changes_exactly_the_addressed_step] cli.update != old(cli.update) ==>
//@        (exists k int :: 0 <= k && k < len(obs.byreq.Nodes) && obs.byreq.Nodes[k].Step.Name == params.Body.Step && obs.byreq.Nodes[k].Status == to &&
//@            obs.byreq.Nodes[k].StatusText == step_status_text(to) &&
//@            (forall j int :: k < j && j < len(obs.byreq.Nodes) ==> obs.byreq.Nodes[j].Step.Name != params.Body.Step) &&
//@            (forall n *persistence/model.Node :: n != obs.byreq.Nodes[k] ==> (n.Status == old(n.Status) && n.StatusText == old(n.StatusText))))
//@   ensures [C20 refused_edit_changes_nothing] cerr != nil && cli.update == old(cli.update) ==>
//@        (forall n *persistence/model.Node :: n.Status == old(n.Status) && n.StatusText == old(n.StatusText))
//@   ensures [C20 refusal_is_an_error] cli.update == old(cli.update) ==> (cerr != nil && resp == nil)
//@   loop 0 invariant [last_match] ok ==> (0 <= idxToUpdate && idxToUpdate <= idx && status.Nodes[idxToUpdate].Step.Name == params.Body.Step &&
//@        (forall j int :: idxToUpdate < j && j <= idx ==> status.Nodes[j].Step.Name != params.Body.Step))
//@   loop 0 invariant [no_match_yet] !ok ==> (forall j int :: 0 <= j && j <= idx ==> status.Nodes[j].Step.Name != params.Body.Step)

//@ fn (*Handler).postAction(h, params) (resp, cerr)
//@   props C20
//@   requires h.client != nil
//@   modifies heap(alloc), heap(persistence/model.Node.Status), heap(persistence/model.Node.StatusText), ghost cli.*, ghost obs.gs*, ghost obs.byreq*
//@   ensures [C20 missing_action_changes_nothing] params.Body.Action == nil ==> (cerr != nil && cli_untouched())
//@   ensures [C20 start_refused_while_running] cli.startasync != old(cli.startasync) ==>
//@        (cli.startasync == old(cli.startasync) + 1 && deref(params.Body.Action) == "start" && obs.gs_id == params.DagID && obs.gs_err == nil &&
//@         obs.gs.Status.Status != scheduler.StatusRunning && cli.start_dag == obs.gs.DAG)
//@   ensures [C20 start_passes_the_parameters_through_unchanged] cli.startasync != old(cli.startasync) ==> cli.start_params == params.Body.Params
//@   ensures [C20 stop_refused_unless_running] cli.stop != old(cli.stop) ==>
//@        (cli.stop == old(cli.stop) + 1 && deref(params.Body.Action) == "stop" && obs.gs_id == params.DagID && obs.gs.Status.Status == scheduler.StatusRunning && cli.stop_dag == obs.gs.DAG)
//@   ensures [C20 retry_needs_a_request_id] cli.retry != old(cli.retry) ==>
//@        (cli.retry == old(cli.retry) + 1 && deref(params.Body.Action) == "retry" && params.Body.RequestID != "" && cli.retry_reqid == params.Body.RequestID && cli.retry_dag == obs.gs.DAG)
//@   ensures [C20 suspend_addresses_this_dag] cli.suspend != old(cli.suspend) ==>
//@        (cli.suspend == old(cli.suspend) + 1 && deref(params.Body.Action) == "suspend" && cli.suspend_id == params.DagID && (cli.suspend_val <==> params.Body.Value == "true"))
//@   ensures [C20 save_addresses_this_dag] cli.save != old(cli.save) ==>
//@        (cli.save == old(cli.save) + 1 && deref(params.Body.Action) == "save" && cli.save_id == params.DagID && cli.save_spec == params.Body.Value)
//@   ensures [C20 rename_needs_a_new_name] cli.rename != old(cli.rename) ==>
//@        (cli.rename == old(cli.rename) + 1 && deref(params.Body.Action) == "rename" && params.Body.Value != "" && cli.rename_old == params.DagID && cli.rename_new == params.Body.Value)
//@   ensures [C20 status_edit_only_on_mark_actions] cli.update != old(cli.update) ==>
//@        ((deref(params.Body.Action) == "mark-success" || deref(params.Body.Action) == "mark-failed") && obs.gs.Status.Status != scheduler.StatusRunning)
//@   ensures [C20 at_most_one_operation_per_request]
//@        (cli.startasync - old(cli.startasync)) + (cli.stop - old(cli.stop)) + (cli.retry - old(cli.retry)) + (cli.suspend - old(cli.suspend)) +
//@        (cli.save - old(cli.save)) + (cli.rename - old(cli.rename)) + (cli.update - old(cli.update)) <= 1
//@   ensures [C20 other_operations_are_never_issued] cli.start == old(cli.start) && cli.restart == old(cli.restart) && cli.create == old(cli.create) && cli.delete == old(cli.delete)
//@   ensures [C20 unknown_action_changes_nothing] params.Body.Action != nil && deref(params.Body.Action) != "start" && deref(params.Body.Action) != "suspend" &&
//@        deref(params.Body.Action) != "stop" && deref(params.Body.Action) != "retry" && deref(params.Body.Action) != "mark-success" && deref(params.Body.Action) != "mark-failed" &&
//@        deref(params.Body.Action) != "save" && deref(params.Body.Action) != "rename" ==> (cerr != nil && cli_untouched())
