//go:build verif

// Contracts for package executor (comment-only file; no executable code).

package executor

// The command executor starts every step in a process group of its own and signals the whole group, so that a stop
// reaches the children of a wrapper shell or script as well (C05).
//@ fn (*commandExecutor).Kill(e, sig) (err)
//@   props C05
//@   modifies *
//@   assert before syscall.Kill [C05 signal_goes_to_the_whole_process_group] arg0 == 0 - e.cmd.Process.Pid && isType(sig, "syscall.Signal") && arg1 == asType(sig, "syscall.Signal")
//@   ensures [C05 no_process_no_signal] (e.cmd == nil || e.cmd.Process == nil) ==> err == nil

//@ fn newCommand(ctx, step) (e, err)
//@   props C05 C11
//@   modifies *
//@   ensures [C05 step_runs_in_a_process_group_of_its_own] err == nil ==> (isType(e, "*commandExecutor") && asType(e, "*commandExecutor").cmd != nil &&
//@        asType(e, "*commandExecutor").cmd.SysProcAttr != nil && asType(e, "*commandExecutor").cmd.SysProcAttr.Setpgid &&
//@        asType(e, "*commandExecutor").cmd.SysProcAttr.Pgid == 0)

// The callback that hands the run's output variables to the command: each entry (NAME=value) is appended to the
// command's environment, after everything that is already there (so that it wins over an inherited variable).
//@ fn newCommand$1(k, value) (r)
//@   props C11
//@   modifies cmd.Env, heap(alloc), heap(elems(string))
//@   ensures [C11 output_variable_is_appended_to_the_environment] r && len(cmd.Env) == old(len(cmd.Env)) + 1 &&
//@        cmd.Env[old(len(cmd.Env))] == asType(value, "string") &&
//@        (forall i int :: 0 <= i && i < old(len(cmd.Env)) ==> cmd.Env[i] == old(cmd.Env[i]))
