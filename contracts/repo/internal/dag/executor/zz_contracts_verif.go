//go:build verif

// Contracts for package executor (comment-only file; no executable code).

package executor

// The command executor starts every step in a process group of its own and signals the whole group, so that a stop
// reaches the children of a wrapper shell or script as well (C05).
//@ fn (*commandExecutor).Kill(e, sig) (err)
//@   props C05
//@   modifies *
//@   assert before syscall.Kill [C05 signal_goes_to_the_whole_process_group] arg0 == 0 - e.cmd.Process.Pid && isType(sig, "syscall.Signal") && arg1 == asType(sig, "syscall.Signal")
//@   ensures [C05 no_process_no_signal] (e.cmd == nil || e.cmd.Process == nil) ==> err == nil

// The command's environment (C11): the process environment first, then the step's variables, then the DAG-level
// entries, and after all of these the run's output variables — a later entry wins in os/exec, so a captured output
// overrides an inherited variable of the same name.
//@ fn newCommand(ctx, step) (e, err)
//@   props C05 C11
//@   modifies *
//@   callback (*sync.Map).Range invariant [C11 output_variables_come_after_everything_else]
//@        len(cmd.Env) >= entry(len(cmd.Env)) && (forall i int :: 0 <= i && i < entry(len(cmd.Env)) ==> cmd.Env[i] == entry(cmd.Env[i]))
//@   assert before (*sync.Map).Range [C11 environment_has_three_parts] len(cmd.Env) == len(obs.environ) + len(step.Variables) + len(dagContext.Envs)
//@   assert before (*sync.Map).Range [C11 process_environment_comes_first] forall i int :: 0 <= i && i < len(obs.environ) ==> cmd.Env[i] == obs.environ[i]
//@   assert before (*sync.Map).Range [C11 then_the_step_s_variables] forall i int :: 0 <= i && i < len(step.Variables) ==> cmd.Env[len(obs.environ) + i] == step.Variables[i]
//@   assert before (*sync.Map).Range [C11 then_the_dag_level_entries] forall i int :: 0 <= i && i < len(dagContext.Envs) ==>
//@        cmd.Env[len(obs.environ) + len(step.Variables) + i] == dagContext.Envs[i].Key + "=" + dagContext.Envs[i].Value
//@   assert after (*sync.Map).Range [C11 earlier_entries_survive_the_output_variables]
//@        len(cmd.Env) >= len(obs.environ) + len(step.Variables) + len(dagContext.Envs) &&
//@        (forall i int :: 0 <= i && i < len(obs.environ) ==> cmd.Env[i] == obs.environ[i]) &&
//@        (forall i int :: 0 <= i && i < len(step.Variables) ==> cmd.Env[len(obs.environ) + i] == step.Variables[i])
//@   ensures [C05 step_runs_in_a_process_group_of_its_own] err == nil ==> (isType(e, "*commandExecutor") && asType(e, "*commandExecutor").cmd != nil &&
//@        asType(e, "*commandExecutor").cmd.SysProcAttr != nil && asType(e, "*commandExecutor").cmd.SysProcAttr.Setpgid &&
//@        asType(e, "*commandExecutor").cmd.SysProcAttr.Pgid == 0)

// The callback that hands the run's output variables to the command: each entry (NAME=value) is appended to the
// command's environment, after everything that is already there (so that it wins over an inherited variable).
//@ fn newCommand$1(k, value) (r)
//@   props C11
//@   modifies cmd.Env, heap(alloc)
//@   ensures [C11 output_variable_is_appended_to_the_environment] r && len(cmd.Env) == old(len(cmd.Env)) + 1 &&
//@        cmd.Env[old(len(cmd.Env))] == asType(value, "string") &&
//@        (forall i int :: 0 <= i && i < old(len(cmd.Env)) ==> cmd.Env[i] == old(cmd.Env[i]))
