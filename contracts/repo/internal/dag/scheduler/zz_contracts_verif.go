//go:build verif

// Contracts for the step scheduler (comment-only file; no executable code).
// Checked by /verif/govc against the SSA of this package on every run.

package scheduler

//@ pred dep_ok(n *Node) = n.data.State.Status == NodeStatusSuccess ||
//@      (n.data.State.Status == NodeStatusError   && n.data.Step.ContinueOn.Failure) ||
//@      (n.data.State.Status == NodeStatusSkipped && n.data.Step.ContinueOn.Skipped)
//@
//@ pred cancel_blocker(n *Node) = (n.data.State.Status == NodeStatusError && !n.data.Step.ContinueOn.Failure) ||
//@      n.data.State.Status == NodeStatusCancel
//@ pred skip_blocker(n *Node) = n.data.State.Status == NodeStatusSkipped && !n.data.Step.ContinueOn.Skipped
//@
//@ pred graph_wf(g *ExecutionGraph) =
//@      (forall k int :: has(g.dict, k) ==> g.dict[k] != nil) &&
//@      (forall k int, j int :: 0 <= j && j < len(g.to[k]) ==> has(g.dict, g.to[k][j]))

//@ fn (*Node).State(n) (s)
//@   props C01 C02 C03 C04 C15
//@   ensures s == n.data.State

//@ fn (*Node).setStatus(n, status)
//@   props C01 C02 C03 C04 C15
//@   modifies n.data.State.Status
//@   ensures n.data.State.Status == status

//@ fn (*Node).SetError(n, err)
//@   props C01 C02
//@   modifies n.data.State.Error
//@   ensures n.data.State.Error == err

//@ fn (*ExecutionGraph).node(g, id) (n)
//@   props C01 C02
//@   ensures n == g.dict[id]

//@ fn isReady(g, node) (ready)
//@   props C01 C02
//@   safety
//@   requires graph_wf(g)
//@   requires node.data.State.Status == NodeStatusNone
//@   modifies node.data.State.Status, node.data.State.Error
//@   ensures [C01 ready_iff_deps_ok] ready <==>
//@        (forall j int :: 0 <= j && j < len(g.to[node.id]) ==> old(dep_ok(g.dict[g.to[node.id][j]])))
//@   ensures [C01 ready_keeps_status] ready ==> node.data.State.Status == old(node.data.State.Status)
//@   ensures [C02 label_justified] node.data.State.Status == old(node.data.State.Status) ||
//@        (node.data.State.Status == NodeStatusCancel &&
//@           (exists j int :: 0 <= j && j < len(g.to[node.id]) && old(cancel_blocker(g.dict[g.to[node.id][j]])))) ||
//@        (node.data.State.Status == NodeStatusSkipped &&
//@           (exists j int :: 0 <= j && j < len(g.to[node.id]) && old(skip_blocker(g.dict[g.to[node.id][j]]))))
//@   ensures [C02 blocked_is_marked]
//@        (exists j int :: 0 <= j && j < len(g.to[node.id]) &&
//@             (old(cancel_blocker(g.dict[g.to[node.id][j]])) || old(skip_blocker(g.dict[g.to[node.id][j]]))))
//@        ==> node.data.State.Status != NodeStatusNone
//@   loop 0 invariant [C01 ready_prefix] ready <==>
//@        (forall j int :: 0 <= j && j <= idx ==> old(dep_ok(g.dict[g.to[node.id][j]])))
//@   loop 0 invariant [C01 ready_unchanged] ready ==> node.data.State.Status == old(node.data.State.Status)
//@   loop 0 invariant [C02 label_prefix] node.data.State.Status == old(node.data.State.Status) ||
//@        (node.data.State.Status == NodeStatusCancel &&
//@           (exists j int :: 0 <= j && j <= idx && old(cancel_blocker(g.dict[g.to[node.id][j]])))) ||
//@        (node.data.State.Status == NodeStatusSkipped &&
//@           (exists j int :: 0 <= j && j <= idx && old(skip_blocker(g.dict[g.to[node.id][j]]))))
//@   loop 0 invariant [C02 marked_prefix]
//@        (exists j int :: 0 <= j && j <= idx &&
//@             (old(cancel_blocker(g.dict[g.to[node.id][j]])) || old(skip_blocker(g.dict[g.to[node.id][j]]))))
//@        ==> node.data.State.Status != NodeStatusNone

// ---------------------------------------------------------------------------------------------
// Status vector abstractions

//@ sfunc status_at(g *ExecutionGraph, i int) NodeStatus = g.nodes[i].data.State.Status
//@
//@ sfunc count_running(g *ExecutionGraph, n int) int rec =
//@      ite(n <= 0, 0, count_running(g, n - 1) + ite(status_at(g, n - 1) == NodeStatusRunning, 1, 0))
//@
//@ pred nodes_wf(g *ExecutionGraph) = forall i int :: 0 <= i && i < len(g.nodes) ==> g.nodes[i] != nil
//@ pred any_running(g *ExecutionGraph) = exists i int :: 0 <= i && i < len(g.nodes) && status_at(g, i) == NodeStatusRunning
//@ pred all_done_ok(g *ExecutionGraph) = forall i int :: 0 <= i && i < len(g.nodes) ==>
//@      (status_at(g, i) == NodeStatusSuccess || status_at(g, i) == NodeStatusSkipped)
//@ pred all_finished(g *ExecutionGraph) = forall i int :: 0 <= i && i < len(g.nodes) ==>
//@      (status_at(g, i) != NodeStatusRunning && status_at(g, i) != NodeStatusNone)

//@ fn (*ExecutionGraph).Nodes(g) (r)
//@   props C01 C02 C03 C04 C05 C15
//@   ensures r == g.nodes

//@ fn (*ExecutionGraph).IsStarted(g) (r)
//@   props C04
//@   ensures r <==> g.startedAt != 0

//@ fn (*ExecutionGraph).IsRunning(g) (r)
//@   props C04 C05
//@   safety
//@   requires nodes_wf(g)
//@   ensures [C04 is_running] r <==> any_running(g)
//@   loop 0 invariant forall i int :: 0 <= i && i <= idx ==> status_at(g, i) != NodeStatusRunning

//@ fn (*Scheduler).isCanceled(sc) (r)
//@   props C04 C05 C01
//@   ensures r <==> sc.canceled == 1

//@ fn (*Scheduler).setCanceled(sc)
//@   props C05
//@   modifies sc.canceled
//@   ensures sc.canceled == 1

//@ fn (*Scheduler).isError(sc) (r)
//@   props C04
//@   ensures r <==> sc.lastError != nil

//@ fn (*Scheduler).setLastError(sc, err)
//@   props C04
//@   modifies sc.lastError
//@   ensures sc.lastError == err

//@ fn (*Scheduler).isSucceed(sc, g) (r)
//@   props C04
//@   safety
//@   requires nodes_wf(g)
//@   ensures [C04 is_succeed] r <==> all_done_ok(g)
//@   loop 0 invariant forall i int :: 0 <= i && i <= idx ==>
//@        (status_at(g, i) == NodeStatusSuccess || status_at(g, i) == NodeStatusSkipped)

//@ fn (*Scheduler).isFinished(sc, g) (r)
//@   props C02 C04
//@   safety
//@   requires nodes_wf(g)
//@   ensures [C02 is_finished] r <==> all_finished(g)
//@   loop 0 invariant forall i int :: 0 <= i && i <= idx ==>
//@        (status_at(g, i) != NodeStatusRunning && status_at(g, i) != NodeStatusNone)

//@ fn (*Scheduler).runningCount(sc, g) (r)
//@   props C15
//@   safety
//@   requires nodes_wf(g)
//@   ensures [C15 counts_running] r == count_running(g, len(g.nodes))
//@   loop 0 invariant count == count_running(g, idx + 1)

// The run outcome as a total function of (cancel flag, started, node states, last error) — C04.
//@ sfunc spec_status(canceled bool, allok bool, started bool, running bool, iserr bool) Status =
//@      ite(canceled && !allok, StatusCancel,
//@      ite(!started, StatusNone,
//@      ite(running, StatusRunning,
//@      ite(iserr, StatusError, StatusSuccess))))

//@ fn (*Scheduler).Status(sc, g) (s)
//@   props C04
//@   requires nodes_wf(g)
//@   ensures [C04 spec_status] s == spec_status(sc.canceled == 1, all_done_ok(g), g.startedAt != 0, any_running(g), sc.lastError != nil)
