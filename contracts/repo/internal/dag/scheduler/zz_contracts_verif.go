//go:build verif

// Contracts for the step scheduler (comment-only file; no executable code).
// Checked by /verif/govc against the SSA of this package on every run.

package scheduler

//@ pred dep_ok(n *Node) = n.data.State.Status == NodeStatusSuccess ||
//@      (n.data.State.Status == NodeStatusError   && n.data.Step.ContinueOn.Failure) ||
//@      (n.data.State.Status == NodeStatusSkipped && n.data.Step.ContinueOn.Skipped)
//@
//@ pred cancel_blocker(n *Node) = (n.data.State.Status == NodeStatusError && !n.data.Step.ContinueOn.Failure) ||
//@      n.data.State.Status == NodeStatusCancel
//@ pred skip_blocker(n *Node) = n.data.State.Status == NodeStatusSkipped && !n.data.Step.ContinueOn.Skipped
//@
//@ pred graph_wf(g *ExecutionGraph) =
//@      (forall k int :: has(g.dict, k) ==> g.dict[k] != nil) &&
//@      (forall k int, j int :: 0 <= j && j < len(g.to[k]) ==> has(g.dict, g.to[k][j]))

//@ fn (*Node).State(n) (s)
//@   props C01 C02 C03 C04 C15
//@   ensures s == n.data.State

//@ fn (*Node).setStatus(n, status)
//@   props C01 C02 C03 C04 C15
//@   modifies n.data.State.Status
//@   ensures n.data.State.Status == status

//@ fn (*Node).SetError(n, err)
//@   props C01 C02
//@   modifies n.data.State.Error
//@   ensures n.data.State.Error == err

//@ fn (*ExecutionGraph).node(g, id) (n)
//@   props C01 C02
//@   ensures n == g.dict[id]

//@ fn isReady(g, node) (ready)
//@   props C01 C02
//@   safety
//@   requires graph_wf(g)
//@   requires node.data.State.Status == NodeStatusNone
//@   modifies node.data.State.Status, node.data.State.Error
//@   ensures [C01 ready_iff_deps_ok] ready <==>
//@        (forall j int :: 0 <= j && j < len(g.to[node.id]) ==> old(dep_ok(g.dict[g.to[node.id][j]])))
//@   ensures [C01 ready_keeps_status] ready ==> node.data.State.Status == old(node.data.State.Status)
//@   ensures [C02 label_justified] node.data.State.Status == old(node.data.State.Status) ||
//@        (node.data.State.Status == NodeStatusCancel &&
//@           (exists j int :: 0 <= j && j < len(g.to[node.id]) && old(cancel_blocker(g.dict[g.to[node.id][j]])))) ||
//@        (node.data.State.Status == NodeStatusSkipped &&
//@           (exists j int :: 0 <= j && j < len(g.to[node.id]) && old(skip_blocker(g.dict[g.to[node.id][j]]))))
//@   ensures [C02 blocked_is_marked]
//@        (exists j int :: 0 <= j && j < len(g.to[node.id]) &&
//@             (old(cancel_blocker(g.dict[g.to[node.id][j]])) || old(skip_blocker(g.dict[g.to[node.id][j]]))))
//@        ==> node.data.State.Status != NodeStatusNone
//@   loop 0 invariant [C01 ready_prefix] ready <==>
//@        (forall j int :: 0 <= j && j <= idx ==> old(dep_ok(g.dict[g.to[node.id][j]])))
//@   loop 0 invariant [C01 ready_unchanged] ready ==> node.data.State.Status == old(node.data.State.Status)
//@   loop 0 invariant [C02 label_prefix] node.data.State.Status == old(node.data.State.Status) ||
//@        (node.data.State.Status == NodeStatusCancel &&
//@           (exists j int :: 0 <= j && j <= idx && old(cancel_blocker(g.dict[g.to[node.id][j]])))) ||
//@        (node.data.State.Status == NodeStatusSkipped &&
//@           (exists j int :: 0 <= j && j <= idx && old(skip_blocker(g.dict[g.to[node.id][j]]))))
//@   loop 0 invariant [C02 marked_prefix]
//@        (exists j int :: 0 <= j && j <= idx &&
//@             (old(cancel_blocker(g.dict[g.to[node.id][j]])) || old(skip_blocker(g.dict[g.to[node.id][j]]))))
//@        ==> node.data.State.Status != NodeStatusNone
