//go:build verif

// Contracts for the step scheduler (comment-only file; no executable code).
// Checked by /verif/govc against the SSA of this package on every run.

package scheduler

//@ pred dep_ok(n *Node) = n.data.State.Status == NodeStatusSuccess ||
//@      (n.data.State.Status == NodeStatusError   && n.data.Step.ContinueOn.Failure) ||
//@      (n.data.State.Status == NodeStatusSkipped && n.data.Step.ContinueOn.Skipped)
//@
//@ pred cancel_blocker(n *Node) = (n.data.State.Status == NodeStatusError && !n.data.Step.ContinueOn.Failure) ||
//@      n.data.State.Status == NodeStatusCancel
//@ pred skip_blocker(n *Node) = n.data.State.Status == NodeStatusSkipped && !n.data.Step.ContinueOn.Skipped
//@
//@ pred graph_wf(g *ExecutionGraph) =
//@      (forall k int :: has(g.dict, k) ==> g.dict[k] != nil) &&
//@      (forall k int, j int :: 0 <= j && j < len(g.to[k]) ==> has(g.dict, g.to[k][j]))

//@ fn (*Node).State(n) (s)
//@   props C01 C02 C03 C04 C15
//@   ensures s == n.data.State

//@ fn (*Node).setStatus(n, status)
//@   props C01 C02 C03 C04 C15
//@   modifies n.data.State.Status
//@   ensures n.data.State.Status == status

//@ fn (*Node).SetError(n, err)
//@   props C01 C02
//@   modifies n.data.State.Error
//@   ensures n.data.State.Error == err

//@ fn (*ExecutionGraph).node(g, id) (n)
//@   props C01 C02
//@   ensures n == g.dict[id]
//@   ensures n == nil || allocated(n)

// isReady runs inside the scheduling loop while workers and signallers act: between any two of its reads a *running*
// step may have moved on (node_rely).  What it concludes is stated about the moment it returns, and rests on facts
// that interference cannot undo: a step that finished, failed, was skipped or canceled stays so, and the visited
// step itself is not running.
//@ pred node_rely(node *Node) twostate uses=Node.data.State =
//@      forall n *Node :: old(n.data.State.Status) != NodeStatusRunning ==>
//@         (n.data.State.Status == old(n.data.State.Status) && (n == node ==> n.data.State.Error == old(n.data.State.Error)))
//@ fn isReady(g, node) (ready)
//@   props C01 C02 C03
//@   safety
//@   interference node_rely
//@   requires graph_wf(g)
//@   requires node.data.State.Status == NodeStatusNone
//@   modifies heap(Node.data.State)
//@   ensures [C01,C02,C03 ready_means_every_dependency_lets_it_proceed] ready ==>
//@        (forall j int :: 0 <= j && j < len(g.to[node.id]) ==> dep_ok(g.dict[g.to[node.id][j]]))
//@   ensures [C01,C03 satisfied_dependencies_make_it_ready]
//@        (forall j int :: 0 <= j && j < len(g.to[node.id]) ==> old(dep_ok(g.dict[g.to[node.id][j]]))) ==> ready
//@   ensures [C01,C03 ready_keeps_status] ready ==> node.data.State.Status == NodeStatusNone
//@   ensures [C02 label_justified] node.data.State.Status == NodeStatusNone ||
//@        (node.data.State.Status == NodeStatusCancel &&
//@           (exists j int :: 0 <= j && j < len(g.to[node.id]) && cancel_blocker(g.dict[g.to[node.id][j]]))) ||
//@        (node.data.State.Status == NodeStatusSkipped &&
//@           (exists j int :: 0 <= j && j < len(g.to[node.id]) && skip_blocker(g.dict[g.to[node.id][j]])))
//@   ensures [C02 blocked_is_marked]
//@        (exists j int :: 0 <= j && j < len(g.to[node.id]) &&
//@             (old(cancel_blocker(g.dict[g.to[node.id][j]])) || old(skip_blocker(g.dict[g.to[node.id][j]]))))
//@        ==> node.data.State.Status != NodeStatusNone
//@   ensures [C02 other_steps_are_not_touched_by_the_gate] forall n *Node :: n != node && old(n.data.State.Status) != NodeStatusRunning ==>
//@        n.data.State.Status == old(n.data.State.Status)
//@   loop 0 invariant [C01,C02,C03 ready_prefix] ready ==>
//@        (forall j int :: 0 <= j && j <= idx ==> dep_ok(g.dict[g.to[node.id][j]]))
//@   loop 0 invariant [C01,C03 ok_prefix] (forall j int :: 0 <= j && j <= idx ==> old(dep_ok(g.dict[g.to[node.id][j]]))) ==> ready
//@   loop 0 invariant [C01,C03 ready_unchanged] ready ==> node.data.State.Status == NodeStatusNone
//@   loop 0 invariant [not_running] node.data.State.Status != NodeStatusRunning
//@   loop 0 invariant [C02 label_prefix] node.data.State.Status == NodeStatusNone ||
//@        (node.data.State.Status == NodeStatusCancel &&
//@           (exists j int :: 0 <= j && j <= idx && cancel_blocker(g.dict[g.to[node.id][j]]))) ||
//@        (node.data.State.Status == NodeStatusSkipped &&
//@           (exists j int :: 0 <= j && j <= idx && skip_blocker(g.dict[g.to[node.id][j]])))
//@   loop 0 invariant [C02 marked_prefix]
//@        (exists j int :: 0 <= j && j <= idx &&
//@             (old(cancel_blocker(g.dict[g.to[node.id][j]])) || old(skip_blocker(g.dict[g.to[node.id][j]]))))
//@        ==> node.data.State.Status != NodeStatusNone
//@   loop 0 invariant [others_untouched] forall n *Node :: n != node && old(n.data.State.Status) != NodeStatusRunning ==>
//@        n.data.State.Status == old(n.data.State.Status)

// ---------------------------------------------------------------------------------------------
// Status vector abstractions

//@ sfunc status_at(g *ExecutionGraph, i int) NodeStatus = g.nodes[i].data.State.Status
//@
//@ sfunc count_running(g *ExecutionGraph, n int) int rec =
//@      ite(n <= 0, 0, count_running(g, n - 1) + ite(status_at(g, n - 1) == NodeStatusRunning, 1, 0))
//@
//@ pred nodes_wf(g *ExecutionGraph) = forall i int :: 0 <= i && i < len(g.nodes) ==> g.nodes[i] != nil
//@ pred any_running(g *ExecutionGraph) = exists i int :: 0 <= i && i < len(g.nodes) && status_at(g, i) == NodeStatusRunning
//@ pred all_done_ok(g *ExecutionGraph) = forall i int :: 0 <= i && i < len(g.nodes) ==>
//@      (status_at(g, i) == NodeStatusSuccess || status_at(g, i) == NodeStatusSkipped)
//@ pred all_finished(g *ExecutionGraph) = forall i int :: 0 <= i && i < len(g.nodes) ==>
//@      (status_at(g, i) != NodeStatusRunning && status_at(g, i) != NodeStatusNone)

//@ fn (*ExecutionGraph).Nodes(g) (r)
//@   props C01 C02 C03 C04 C05 C15
//@   ensures r == g.nodes
//@   ensures r == nil || allocated(r)

//@ fn (*ExecutionGraph).IsStarted(g) (r)
//@   props C04
//@   ensures r <==> g.startedAt != 0

//@ fn (*ExecutionGraph).IsRunning(g) (r)
//@   props C04 C05
//@   safety
//@   requires nodes_wf(g)
//@   ensures [C04 is_running] r <==> any_running(g)
//@   loop 0 invariant forall i int :: 0 <= i && i <= idx ==> status_at(g, i) != NodeStatusRunning

// chk.fresh: the stop flag has been consulted and found clear since the last launch / execution began (C05: a stop
// can arrive at any time from another goroutine; what the code can and must do is look again before every launch and
// before every execution).
//@ ghost chk.fresh bool
//@ fn (*Scheduler).isCanceled(sc) (r)
//@   props C04 C05 C01
//@   modifies ghost chk.fresh
//@   records chk.fresh = !r
//@   ensures r <==> sc.canceled == 1

//@ fn (*Scheduler).setCanceled(sc)
//@   props C05
//@   modifies sc.canceled
//@   ensures sc.canceled == 1

//@ fn (*Scheduler).isError(sc) (r)
//@   props C04
//@   ensures r <==> sc.lastError != nil

//@ fn (*Scheduler).setLastError(sc, err)
//@   props C04
//@   modifies sc.lastError
//@   ensures sc.lastError == err

//@ fn (*Scheduler).isSucceed(sc, g) (r)
//@   props C04
//@   safety
//@   requires nodes_wf(g)
//@   ensures [C04 is_succeed] r <==> all_done_ok(g)
//@   loop 0 invariant forall i int :: 0 <= i && i <= idx ==>
//@        (status_at(g, i) == NodeStatusSuccess || status_at(g, i) == NodeStatusSkipped)

//@ fn (*Scheduler).isFinished(sc, g) (r)
//@   props C02 C04
//@   safety
//@   requires nodes_wf(g)
//@   ensures [C02 is_finished] r <==> all_finished(g)
//@   loop 0 invariant forall i int :: 0 <= i && i <= idx ==>
//@        (status_at(g, i) != NodeStatusRunning && status_at(g, i) != NodeStatusNone)

//@ fn (*Scheduler).runningCount(sc, g) (r)
//@   props C15
//@   safety
//@   requires nodes_wf(g)
//@   ensures [C15 counts_running] r == count_running(g, len(g.nodes))
//@   loop 0 invariant count == count_running(g, idx + 1)

// The run outcome as a total function of (cancel flag, started, node states, last error) — C04.
//@ sfunc spec_status(canceled bool, allok bool, started bool, running bool, iserr bool) Status =
//@      ite(canceled && !allok, StatusCancel,
//@      ite(!started, StatusNone,
//@      ite(running, StatusRunning,
//@      ite(iserr, StatusError, StatusSuccess))))

//@ fn (*Scheduler).Status(sc, g) (s)
//@   props C04 C05
//@   requires nodes_wf(g)
//@   modifies ghost chk.fresh
//@   ensures [C04,C05 spec_status] s == spec_status(sc.canceled == 1, all_done_ok(g), g.startedAt != 0, any_running(g), sc.lastError != nil)

// ---------------------------------------------------------------------------------------------
// The scheduling loop (role L) — sequential contracts; the rely/guarantee variant is further below.

//@ ghost launch map[*Node]int      // how many worker activations were spawned for a node
//@ ghost hruns int                 // number of handler executions so far
//@ ghost hlog map[int]*Node        // the handler node of the k-th handler execution

//@ sfunc handler_for(s Status) dag.HandlerType =
//@      ite(s == StatusSuccess, dag.HandlerOnSuccess,
//@      ite(s == StatusError, dag.HandlerOnFailure,
//@      ite(s == StatusCancel, dag.HandlerOnCancel, dag.HandlerOnExit)))
//@ sfunc outcome(sc *Scheduler, g *ExecutionGraph) Status =
//@      spec_status(sc.canceled == 1, all_done_ok(g), g.startedAt != 0, any_running(g), sc.lastError != nil)

//@ fn (*ExecutionGraph).Start(g)
//@   props C04
//@   modifies g.startedAt
//@   ensures g.startedAt != 0

//@ fn (*ExecutionGraph).Finish(g)
//@   props C04
//@   modifies g.finishedAt

// Scheduler.setup: exports the DAG-level environment, creates the log directory (not in a dry run) and builds one
// handler node per configured handler — exactly those, each from its configured step.
//@ fn (*Scheduler).setup(sc, ctx) (err)
//@   props C03 C04
//@   modifies sc.handlers, heap(map(dag.HandlerType, *Node)), heap(alloc), ghost eff.env, ghost env.key, ghost env.val, ghost eff.fs, ghost fs.*, ghost obs.mkdir*
//@   ensures [C03 dry_run_creates_no_directory] sc.dry ==> eff.fs == old(eff.fs)
//@   ensures [C04 handler_nodes_are_the_configured_handlers] err == nil ==> (sc.handlers != nil &&
//@        (has(sc.handlers, dag.HandlerOnExit) <==> sc.onExit != nil) && (has(sc.handlers, dag.HandlerOnSuccess) <==> sc.onSuccess != nil) &&
//@        (has(sc.handlers, dag.HandlerOnFailure) <==> sc.onFailure != nil) && (has(sc.handlers, dag.HandlerOnCancel) <==> sc.onCancel != nil))
//@   ensures [C04 handler_node_runs_the_configured_step] err == nil ==> (
//@        (sc.onExit != nil ==> (sc.handlers[dag.HandlerOnExit] != nil && sc.handlers[dag.HandlerOnExit].data.Step.Name == sc.onExit.Name && sc.handlers[dag.HandlerOnExit].data.Step.Command == sc.onExit.Command && sc.handlers[dag.HandlerOnExit].data.State.Status == NodeStatusNone)) &&
//@        (sc.onSuccess != nil ==> (sc.handlers[dag.HandlerOnSuccess] != nil && sc.handlers[dag.HandlerOnSuccess].data.Step.Name == sc.onSuccess.Name && sc.handlers[dag.HandlerOnSuccess].data.Step.Command == sc.onSuccess.Command)) &&
//@        (sc.onFailure != nil ==> (sc.handlers[dag.HandlerOnFailure] != nil && sc.handlers[dag.HandlerOnFailure].data.Step.Name == sc.onFailure.Name && sc.handlers[dag.HandlerOnFailure].data.Step.Command == sc.onFailure.Command)) &&
//@        (sc.onCancel != nil ==> (sc.handlers[dag.HandlerOnCancel] != nil && sc.handlers[dag.HandlerOnCancel].data.Step.Name == sc.onCancel.Name && sc.handlers[dag.HandlerOnCancel].data.Step.Command == sc.onCancel.Command)))

// A handler node is run like a step: set up, executed once, torn down — and not at all in dry-run mode.
//@ fn (*Scheduler).runHandlerNode(sc, ctx, node) (err)
//@   props C03 C04
//@   modifies node.data.State, node.data.Step.CmdWithArgs, node.data.Step.Stdout, node.data.Step.Stderr, node.data.Step.Dir,
//@            node.data.Step.Command, node.data.Step.Args, node.logFile, node.logWriter, node.stdoutFile, node.stdoutWriter,
//@            node.stderrFile, node.stderrWriter, node.scriptFile, node.cmd, node.cancelFunc, node.outputReader, node.outputWriter, node.done,
//@            ghost nsetup, ghost nexec, ghost execfail, ghost dirty, ghost ntear, ghost eff.exec, ghost eff.fs, ghost eff.env, heap(alloc), heap(elems(string)), ghost fs.*, ghost fw.*, ghost bw.*, ghost obs.exists*, ghost obs.stat*, ghost obs.run_calls, ghost obs.run_err, ghost outvar.stores, ghost outvar.key, ghost outvar.val, ghost env.key, ghost env.val, ghost obs.buf_string
//@   records hruns = old(hruns) + 1
//@   records hlog = upd(old(hlog), old(hruns), node)
//@   ensures err == nil
//@   ensures [C03 dry_handler_runs_nothing] sc.dry ==> (nexec == old(nexec) && nsetup == old(nsetup) && ntear == old(ntear) &&
//@        eff.exec == old(eff.exec) && eff.fs == old(eff.fs) && eff.env == old(eff.env) && obs.run_calls == old(obs.run_calls))
//@   ensures [C04 handler_outcome_is_command_outcome] !sc.dry && obs.run_calls == old(obs.run_calls) + 1 ==>
//@        (node.data.State.Status == NodeStatusSuccess <==> obs.run_err == nil)
//@   ensures [C04 handler_ends_finished_or_failed] node.data.State.Status == NodeStatusSuccess || node.data.State.Status == NodeStatusError
//@   ensures [C04 handler_command_runs_at_most_once] nexec == old(nexec) || nexec == upd(old(nexec), node, old(nexec[node]) + 1)
//@   ensures [C04 handler_runs_unless_setup_failed] !sc.dry ==> (nsetup == upd(old(nsetup), node, old(nsetup[node]) + 1) &&
//@        (node.data.State.Status == NodeStatusSuccess ==> (nexec[node] == old(nexec[node]) + 1 && !execfail[node])))
//@   ensures [C12 handler_torn_down] nexec[node] != old(nexec[node]) ==> !dirty[node]

// ---------------------------------------------------------------------------------------------
// Node resources and execution (ghost counters make "how often" and "in which order" expressible)

//@ ghost nsetup map[*Node]int      // successful or failed resource set-ups of a node (log/stdout/stderr/script files)
//@ ghost nexec map[*Node]int       // executions of a node's command begun
//@ ghost execfail map[*Node]bool   // the last execution of the node returned an error
//@ ghost dirty map[*Node]bool      // the node has executed since its resources were last torn down
//@ ghost ntear map[*Node]int       // teardowns of a node's resources

// setup opens the files of ONE attempt.  It re-arms teardown (done = false): the buffered writers created here hold
// the attempt's output until teardown flushes them, and a retry runs setup again on a node already torn down once.
//@ fn (*Node).setup(n, logDir, requestID) (err)
//@   props C03 C05 C12
//@   modifies n.done, n.data.State.StartedAt, n.data.State.FinishedAt, n.data.State.Log, n.data.State.Error, n.data.Step.CmdWithArgs, n.data.Step.Stdout,
//@            n.data.Step.Stderr, n.data.Step.Dir, n.logFile, n.logWriter, n.stdoutFile, n.stdoutWriter, n.stderrFile,
//@            n.stderrWriter, n.scriptFile, heap(alloc), ghost nsetup, ghost eff.env, ghost env.key, ghost env.val, ghost eff.fs,
//@            ghost fs.*, ghost fw.*, ghost obs.exists*, ghost obs.stat*
//@   records nsetup = upd(old(nsetup), n, old(nsetup[n]) + 1)
//@   ensures [C12 setup_rearms_teardown] !n.done
//@   ensures [C05 a_new_attempt_has_not_finished] n.data.State.FinishedAt == 0
//@   ensures [C12 log_is_opened_under_the_name_in_the_status] err == nil ==>
//@        (n.logFile != nil && file_name(n.logFile) == n.data.State.Log && n.logWriter != nil && bw_file(n.logWriter) == n.logFile)
//@   ensures [C12 stdout_file_is_opened_when_configured] err == nil && n.data.Step.Stdout != "" ==>
//@        (n.stdoutFile != nil && n.stdoutWriter != nil && bw_file(n.stdoutWriter) == n.stdoutFile && n.stdoutWriter != n.logWriter)
//@   ensures [C12 fresh_writers_have_no_flush_yet] bw.flushes == old(bw.flushes)

//@ fn (*Node).setupLog(n) (err)
//@   props C12
//@   modifies n.logFile, n.logWriter, n.data.State.Error, heap(alloc), ghost eff.fs, ghost fs.*, ghost obs.exists*, ghost obs.stat*
//@   ensures [C12 log_is_opened_under_the_name_in_the_status] err == nil && n.data.State.Log != "" ==>
//@        (n.logFile != nil && file_name(n.logFile) == n.data.State.Log && n.logWriter != nil && bw_file(n.logWriter) == n.logFile &&
//@         !wasAllocated(n.logWriter) && allocated(n.logWriter))

//@ fn (*Node).setupStdout(n) (err)
//@   props C12
//@   modifies n.stdoutFile, n.stdoutWriter, n.data.State.Error, heap(alloc), ghost eff.fs, ghost fs.*, ghost obs.exists*, ghost obs.stat*
//@   ensures [C12 stdout_file_is_opened_when_configured] err == nil && n.data.Step.Stdout != "" ==>
//@        (n.stdoutFile != nil && n.stdoutWriter != nil && bw_file(n.stdoutWriter) == n.stdoutFile && !wasAllocated(n.stdoutWriter))
//@   ensures n.data.Step.Stdout == "" ==> (err == nil && eff.fs == old(eff.fs) && n.stdoutWriter == old(n.stdoutWriter))

//@ fn (*Node).setupStderr(n) (err)
//@   props C12
//@   modifies n.stderrFile, n.stderrWriter, n.data.State.Error, heap(alloc), ghost eff.fs, ghost fs.*, ghost obs.exists*, ghost obs.stat*
//@   ensures err == nil && n.data.Step.Stderr != "" ==> (n.stderrFile != nil && n.stderrWriter != nil && bw_file(n.stderrWriter) == n.stderrFile)
//@   ensures n.data.Step.Stderr == "" ==> (err == nil && eff.fs == old(eff.fs) && n.stderrWriter == old(n.stderrWriter))

//@ fn (*Node).setupScript(n) (err)
//@   props C12
//@   modifies n.scriptFile, heap(alloc), ghost eff.fs, ghost fs.*, ghost fw.*, ghost obs.exists*, ghost obs.stat*
//@   ensures n.data.Step.Script == "" ==> (err == nil && eff.fs == old(eff.fs) && n.scriptFile == old(n.scriptFile))

// Execute: the step's outcome is the outcome of its command.  Whatever else Execute does (output capture, log
// path export), the error it returns is the one the executor's Run returned; if no command was run it is an error.
//@ ghost obs.run_calls int         // executor Run() calls so far
//@ ghost obs.run_err error         // what the last Run() returned
// setupExec wires the command's stdout and stderr.  Whatever the configuration, the log's buffered writer is a
// destination of both streams (stderr: unless a stderr file is configured), the stdout file's writer is a destination of
// stdout, and every destination is a library writer that accepts all bytes.
//@ fn (*Node).setupExec(n, ctx) (cmd, err)
//@   props C02 C11 C12
//@   requires n.logWriter != nil
//@   modifies n.data.Step.Command, n.data.Step.Args, n.cmd, n.cancelFunc, n.outputReader, n.outputWriter, heap(alloc), heap(elems(string)),
//@            ghost eff.fs, ghost eff.exec
//@   ensures err == nil ==> cmd != nil && n.cmd == cmd
//@   expect calls (dag/executor.Executor).SetStdout >= 1
//@   expect calls (dag/executor.Executor).SetStderr >= 1
//@   assert before (dag/executor.Executor).SetStdout [C12 stdout_reaches_the_log] sink_of(arg1, n.logWriter)
//@   assert before (dag/executor.Executor).SetStdout [C12 stdout_reaches_the_stdout_file] n.stdoutWriter != nil ==> sink_of(arg1, n.stdoutWriter)
//@   assert before (dag/executor.Executor).SetStdout [C12 stdout_sinks_accept_every_byte] total_sink(arg1)
//@   assert before (dag/executor.Executor).SetStderr [C12 stderr_reaches_the_log_or_the_stderr_file]
//@        sink_of(arg1, n.logWriter) || (n.stderrWriter != nil && sink_of(arg1, n.stderrWriter))
//@   assert before (dag/executor.Executor).SetStderr [C12 stderr_sinks_accept_every_byte] total_sink(arg1)

//@ fn (*Node).Execute(n, ctx) (err)
//@   props C02 C03 C11 C12
//@   requires [C12 executes_with_an_open_log] n.logWriter != nil
//@   modifies n.data.State.Error, n.data.Step.Command, n.data.Step.Args, n.cmd, n.cancelFunc, n.outputReader, n.outputWriter, heap(alloc), heap(elems(string)),
//@            ghost obs.run_calls, ghost obs.run_err, ghost outvar.stores, ghost outvar.key, ghost outvar.val, ghost eff.exec, ghost eff.env, ghost eff.fs,
//@            ghost env.key, ghost env.val, ghost obs.buf_string
//@   records nexec = upd(old(nexec), n, old(nexec[n]) + 1)
//@   records execfail = upd(old(execfail), n, err != nil)
//@   records dirty = upd(old(dirty), n, true)
//@   ensures [C02 step_outcome_is_command_outcome] obs.run_calls == old(obs.run_calls) + 1 ==> err == obs.run_err
//@   ensures [C02 no_command_no_success] obs.run_calls == old(obs.run_calls) ==> err != nil
//@   ensures [C03 command_runs_at_most_once_per_execution] obs.run_calls == old(obs.run_calls) || obs.run_calls == old(obs.run_calls) + 1
//@   ensures [C11 capture_only_when_configured] outvar.stores != old(outvar.stores) ==> (outvar.stores == old(outvar.stores) + 1 && n.data.Step.Output != "")
//@   ensures [C11 captured_under_its_name] outvar.stores != old(outvar.stores) ==> (isType(outvar.key, "string") && asType(outvar.key, "string") == n.data.Step.Output)
//@   ensures [C11 stored_as_name_equals_trimmed_output] outvar.stores != old(outvar.stores) ==>
//@        (isType(outvar.val, "string") && asType(outvar.val, "string") == n.data.Step.Output + "=" + trim_space(obs.buf_string))
//@   ensures [C11 capture_is_exported_trimmed] outvar.stores != old(outvar.stores) ==>
//@        (eff.env != old(eff.env) && env.key == n.data.Step.Output && env.val == trim_space(obs.buf_string))

// teardown: an armed teardown (done == false) flushes the log's and the stdout file's buffered writers, syncs and closes
// the files and disarms itself; a disarmed one does nothing.  Only an armed teardown makes the node clean again.
//@ fn (*Node).teardown(n) (err)
//@   props C03 C12
//@   modifies n.done, n.data.State.Error, heap(alloc), ghost dirty, ghost ntear, ghost eff.fs, ghost fs.*, ghost bw.*
//@   records dirty = upd(old(dirty), n, ite(old(n.done), old(dirty[n]), false))
//@   records ntear = upd(old(ntear), n, old(ntear[n]) + 1)
//@   ensures [C12 teardown_disarms_itself] n.done
//@   ensures [C12 disarmed_teardown_does_nothing] old(n.done) ==> (err == nil && bw.flushes == old(bw.flushes) && eff.fs == old(eff.fs))
//@   ensures [C12 armed_teardown_flushes_the_log] !old(n.done) && n.logWriter != nil ==> bw.flushes[n.logWriter] > old(bw.flushes[n.logWriter])
//@   ensures [C12 armed_teardown_flushes_the_stdout_file] !old(n.done) && n.stdoutWriter != nil ==> bw.flushes[n.stdoutWriter] > old(bw.flushes[n.stdoutWriter])
//@   loop 0 invariant forall w *bufio.Writer :: bw.flushes[w] >= old(bw.flushes[w])
//@   loop 0 invariant idx >= 0 && n.logWriter != nil ==> bw.flushes[n.logWriter] > old(bw.flushes[n.logWriter])
//@   loop 0 invariant idx >= 1 && n.stdoutWriter != nil ==> bw.flushes[n.stdoutWriter] > old(bw.flushes[n.stdoutWriter])
//@   loop 0 modifies ghost bw.*
//@   assert before (*os.File).Sync [C12 synced_file_is_the_log_or_the_stdout_file] arg0 == n.logFile || arg0 == n.stdoutFile
//@   expect calls (*bufio.Writer).Flush >= 1
//@   expect calls (*os.File).Sync >= 1
//@   expect calls (*os.File).Close >= 1

// dry-run gating (C03): with sc.dry none of the three touches a node, a file or a process
//@ fn (*Scheduler).setupNode(sc, node) (err)
//@   props C03 C05 C12
//@   modifies node.data.State.StartedAt, node.data.State.FinishedAt, node.data.State.Log, node.data.State.Error, node.data.Step.CmdWithArgs, node.data.Step.Stdout,
//@            node.data.Step.Stderr, node.data.Step.Dir, node.logFile, node.logWriter, node.stdoutFile, node.stdoutWriter, node.stderrFile,
//@            node.stderrWriter, node.scriptFile, node.done, ghost nsetup, ghost eff.env, ghost env.key, ghost env.val, ghost eff.fs,
//@            heap(alloc), ghost fs.*, ghost fw.*, ghost obs.exists*, ghost obs.stat*
//@   ensures [C03 dry_no_setup] sc.dry ==> err == nil && nsetup == old(nsetup) && eff.fs == old(eff.fs) && eff.env == old(eff.env) &&
//@        node.data.State.Error == old(node.data.State.Error) && node.done == old(node.done)
//@   ensures !sc.dry ==> nsetup == upd(old(nsetup), node, old(nsetup[node]) + 1)
//@   ensures [C12 setup_rearms_teardown] !sc.dry ==> !node.done
//@   ensures [C05 a_new_attempt_has_not_finished] !sc.dry ==> node.data.State.FinishedAt == 0
//@   ensures [C12 log_is_opened_under_the_name_in_the_status] !sc.dry && err == nil ==>
//@        (node.logFile != nil && file_name(node.logFile) == node.data.State.Log && node.logWriter != nil && bw_file(node.logWriter) == node.logFile)
//@   ensures [C12 stdout_file_is_opened_when_configured] !sc.dry && err == nil && node.data.Step.Stdout != "" ==>
//@        (node.stdoutFile != nil && node.stdoutWriter != nil && bw_file(node.stdoutWriter) == node.stdoutFile)

//@ fn (*Scheduler).execNode(sc, ctx, n) (err)
//@   props C02 C03 C05 C12
//@   records chk.fresh = false
//@   requires [C12 executes_with_an_open_log] !sc.dry ==> n.logWriter != nil
//@   modifies n.data.State.Error, n.data.Step.Command, n.data.Step.Args, n.cmd, n.cancelFunc, n.outputReader, n.outputWriter, heap(alloc), heap(elems(string)),
//@            ghost nexec, ghost execfail, ghost dirty, ghost eff.exec, ghost eff.env, ghost eff.fs, ghost obs.run_calls, ghost obs.run_err, ghost outvar.stores, ghost outvar.key, ghost outvar.val, ghost env.key, ghost env.val, ghost obs.buf_string
//@   ensures [C02 step_outcome_is_command_outcome] !sc.dry && obs.run_calls == old(obs.run_calls) + 1 ==> err == obs.run_err
//@   ensures [C02 no_command_no_success] !sc.dry && obs.run_calls == old(obs.run_calls) ==> err != nil
//@   ensures [C03 dry_runs_no_command] sc.dry ==> obs.run_calls == old(obs.run_calls)
//@   ensures [C03 dry_no_exec] sc.dry ==> err == nil && nexec == old(nexec) && eff.exec == old(eff.exec) && eff.fs == old(eff.fs) &&
//@        eff.env == old(eff.env) && dirty == old(dirty) && execfail == old(execfail)
//@   ensures !sc.dry ==> nexec == upd(old(nexec), n, old(nexec[n]) + 1) && execfail == upd(old(execfail), n, err != nil) &&
//@        dirty == upd(old(dirty), n, true)

//@ fn (*Scheduler).teardownNode(sc, node) (err)
//@   props C03 C12
//@   modifies node.done, node.data.State.Error, ghost dirty, ghost ntear, ghost eff.fs, heap(alloc), ghost fs.*, ghost bw.*
//@   ensures [C03 dry_no_teardown] sc.dry ==> err == nil && ntear == old(ntear) && dirty == old(dirty) && eff.fs == old(eff.fs) &&
//@        node.done == old(node.done) && bw.flushes == old(bw.flushes)
//@   ensures [C12 armed_teardown_cleans] !sc.dry ==> (node.done && ntear == upd(old(ntear), node, old(ntear[node]) + 1) &&
//@        dirty == upd(old(dirty), node, ite(old(node.done), old(dirty[node]), false)))
//@   ensures [C12 armed_teardown_flushes_the_log] !sc.dry && !old(node.done) && node.logWriter != nil ==> bw.flushes[node.logWriter] > old(bw.flushes[node.logWriter])
//@   ensures [C12 armed_teardown_flushes_the_stdout_file] !sc.dry && !old(node.done) && node.stdoutWriter != nil ==> bw.flushes[node.stdoutWriter] > old(bw.flushes[node.stdoutWriter])

//@ fn (*Node).setErr(n, err)
//@   props C02 C03
//@   modifies n.data.State.Error, n.data.State.Status
//@   ensures n.data.State.Error == err && n.data.State.Status == NodeStatusError

//@ fn (*Node).incRetryCount(n)
//@   props C03
//@   modifies n.data.State.RetryCount
//@   ensures n.data.State.RetryCount == old(n.data.State.RetryCount) + 1

//@ fn (*Node).getRetryCount(n) (r)
//@   props C03
//@   ensures r == n.data.State.RetryCount

//@ fn (*Node).incDoneCount(n)
//@   props C03
//@   modifies n.data.State.DoneCount
//@   ensures n.data.State.DoneCount == old(n.data.State.DoneCount) + 1

//@ fn (*Node).setRetriedAt(n, t)
//@   props C03
//@   modifies n.data.State.RetriedAt

//@ fn (*Node).finish(n)
//@   props C03
//@   modifies n.data.State.FinishedAt

//@ fn (*Scheduler).isTimeout(sc, startedAt) (r)
//@   props C03 C05
//@   ensures r ==> sc.timeout > 0

// The worker goroutine W(node): thread precondition, the ghost effect of spawning it, and its sequential
// contract (no stop request, no timeout configured, non-repeating step).
//@ pred w_scope(sc *Scheduler, node *Node) = !node.data.Step.RepeatPolicy.Repeat && sc.timeout == 0 && sc.canceled != 1 && !sc.dry
//@
// What the other goroutines may do while a worker runs: raise the stop flag, set the run's last error, and a signaller
// may mark this worker's step canceled while it is running; nobody else touches the step.
//@ pred worker_rely(sc *Scheduler, node *Node) twostate uses=Node.data.State.Status,Scheduler.canceled,Scheduler.lastError =
//@      (old(sc.canceled) == 1 ==> sc.canceled == 1) && (old(sc.lastError) != nil ==> sc.lastError != nil) &&
//@      (node.data.State.Status == old(node.data.State.Status) ||
//@       (old(node.data.State.Status) == NodeStatusRunning && node.data.State.Status == NodeStatusCancel))
//@ fn (*Scheduler).Schedule$1(node)
//@   interference worker_rely
//@   props C01 C02 C03 C05 C12
//@   requires [flipped_before_spawn] node.data.State.Status != NodeStatusNone
//@   requires sc != nil
//@   modifies *
//@   spawn modifies ghost launch, ghost chk.fresh
//@   spawn ensures launch == upd(old(launch), node, old(launch[node]) + 1) && !chk.fresh
//@   assert before (*Scheduler).execNode [C05 stop_flag_is_consulted_before_every_execution] chk.fresh
//@   assert before (*Scheduler).execNode [C05 an_attempt_that_is_about_to_run_is_not_marked_finished] !sc.dry ==> arg2.data.State.FinishedAt == 0
//@   assert before (*Node).setStatus [C01,C15 worker_writes_only_its_own_step] arg0 == node && arg1 != NodeStatusRunning
//@   assert before (*Node).setErr [C01 worker_writes_only_its_own_step] arg0 == node
//@   assert before (*Node).incRetryCount [C01 worker_writes_only_its_own_step] arg0 == node
//@   assert before (*Node).incDoneCount [C01 worker_writes_only_its_own_step] arg0 == node
//@   ensures [C05 nothing_is_executed_once_the_stop_is_registered] old(sc.canceled) == 1 ==> (nexec == old(nexec) && eff.exec == old(eff.exec))
//@   ensures [C03 at_most_one_execution] old(w_scope(sc, node)) ==>
//@        (nexec == old(nexec) || nexec == upd(old(nexec), node, old(nexec[node]) + 1))
//@   ensures [C03 one_setup_per_activation] old(!sc.dry) ==> nsetup == upd(old(nsetup), node, old(nsetup[node]) + 1)
//@   ensures [C03 retry_release_is_bounded] old(w_scope(sc, node)) && node.data.State.Status == NodeStatusNone && old(node.data.State.Status) == NodeStatusRunning ==>
//@        (node.data.Step.RetryPolicy != nil && old(node.data.State.RetryCount) < node.data.Step.RetryPolicy.Limit &&
//@         node.data.State.RetryCount == old(node.data.State.RetryCount) + 1 && nexec[node] == old(nexec[node]) + 1 && execfail[node])
//@   ensures [C03 retry_count_bounded] old(w_scope(sc, node)) ==>
//@        (node.data.State.RetryCount == old(node.data.State.RetryCount) ||
//@         (node.data.Step.RetryPolicy != nil && old(node.data.State.RetryCount) < node.data.Step.RetryPolicy.Limit &&
//@          node.data.State.RetryCount == old(node.data.State.RetryCount) + 1 && execfail[node]))
//@   ensures [C03 retry_count_only_on_release] old(w_scope(sc, node)) && old(node.data.State.Status) == NodeStatusRunning &&
//@        node.data.State.RetryCount != old(node.data.State.RetryCount) ==>
//@        (node.data.State.Status == NodeStatusNone || (node.data.State.Status == NodeStatusError && sc.lastError != nil))
//@   ensures [C02 failed_step_labelled_failed] old(w_scope(sc, node)) && old(node.data.State.Status) == NodeStatusRunning &&
//@        nexec[node] == old(nexec[node]) + 1 && execfail[node] ==>
//@        (node.data.State.Status == NodeStatusError || node.data.State.Status == NodeStatusNone || node.data.State.Status == NodeStatusCancel)
//@   ensures [C02 failed_step_sets_run_error] old(w_scope(sc, node)) && old(node.data.State.Status) == NodeStatusRunning &&
//@        node.data.State.Status == NodeStatusError ==> sc.lastError != nil
//@   ensures [C02 clean_step_labelled_finished] old(w_scope(sc, node)) && old(node.data.State.Status) == NodeStatusRunning &&
//@        nexec[node] == old(nexec[node]) + 1 && !execfail[node] ==>
//@        (node.data.State.Status == NodeStatusSuccess || node.data.State.Status == NodeStatusCancel || (node.data.State.Status == NodeStatusError && sc.lastError != nil))
//@   ensures [C02 setup_failure_labelled_failed] old(w_scope(sc, node)) && nexec == old(nexec) && old(node.data.State.Status) == NodeStatusRunning && sc.canceled != 1 ==>
//@        (node.data.State.Status == NodeStatusError && sc.lastError != nil)
//@   ensures [C12 torn_down_after_last_execution] old(!sc.dry) ==> !dirty[node]
//@   ensures [C05,C08 worker_never_leaves_its_step_running] old(!sc.dry) ==> node.data.State.Status != NodeStatusRunning
//@   loop 0 invariant sc == old(sc) && node == old(node) && sc.dry == old(sc.dry) && sc.timeout == old(sc.timeout) && (old(sc.canceled) == 1 ==> sc.canceled == 1)
//@   loop 0 invariant old(!sc.dry) ==> nsetup == upd(old(nsetup), node, old(nsetup[node]) + 1)
//@   loop 0 invariant [stopped_before_start] old(sc.canceled) == 1 ==> (sc.canceled == 1 && nexec == old(nexec) && eff.exec == old(eff.exec))
//@   loop 0 invariant [armed_while_dirty] old(!sc.dry) ==> (dirty[node] ==> !node.done)
//@   loop 0 invariant [log_open_after_setup] old(!sc.dry) && setupSucceed ==> node.logWriter != nil
//@   loop 0 invariant [a] old(w_scope(sc, node)) ==> nexec == old(nexec)
//@   loop 0 invariant [b] old(w_scope(sc, node)) ==> node.data.State.RetryCount == old(node.data.State.RetryCount)
//@   loop 0 invariant [c] old(w_scope(sc, node)) ==> node.data.Step.RetryPolicy == old(node.data.Step.RetryPolicy)
//@   loop 0 invariant [d] old(w_scope(sc, node)) ==> (setupSucceed ==> (node.data.State.Status == old(node.data.State.Status) ||
//@        (old(node.data.State.Status) == NodeStatusRunning && node.data.State.Status == NodeStatusCancel)))
//@   loop 0 invariant [e] old(w_scope(sc, node)) ==> (!setupSucceed ==> node.data.State.Status == NodeStatusError && sc.lastError != nil)

// What the other goroutines (workers, signallers) may do between two actions of the scheduling loop: register a stop,
// set the run's last error, and move a *running* step to any state; a step that is not running is not theirs.
// The last conjunct follows from the one before it by induction over the node list (lemmas running_count_shrinks_base
// and running_count_shrinks_step; the induction itself is the one step taken on paper).
//@ pred sched_rely(sc *Scheduler, g *ExecutionGraph) twostate uses=Node.data.State,Scheduler.canceled,Scheduler.lastError =
//@      (old(sc.canceled) == 1 ==> sc.canceled == 1) &&
//@      (forall n *Node :: old(n.data.State.Status) != NodeStatusRunning ==> n.data.State.Status == old(n.data.State.Status)) &&
//@      count_running(g, len(g.nodes)) <= old(count_running(g, len(g.nodes)))
//@ lemma running_count_shrinks_base(g *ExecutionGraph) twostate props C15: count_running(g, 0) <= old(count_running(g, 0))
//@ lemma running_count_shrinks_step(g *ExecutionGraph, n int) twostate props C15:
//@      (g.nodes == old(g.nodes) && 0 <= n && n < len(g.nodes) &&
//@       (old(status_at(g, n)) != NodeStatusRunning ==> status_at(g, n) == old(status_at(g, n))) &&
//@       count_running(g, n) <= old(count_running(g, n)))
//@      ==> count_running(g, n + 1) <= old(count_running(g, n + 1))
//@ fn (*Scheduler).Schedule(sc, ctx, g, done) (err)
//@   interference sched_rely
//@   props C01 C02 C03 C04 C05 C10 C11 C15
//@   requires nodes_wf(g) && graph_wf(g)
//@   requires forall i int :: 0 <= i && i < len(g.nodes) ==> has(g.dict, g.nodes[i].id)
//@   modifies sc.handlers, heap(Scheduler.lastError), heap(Scheduler.canceled), g.startedAt, g.finishedAt, heap(Node), heap(alloc), heap(map(dag.HandlerType, *Node)),
//@            heap(elems(string)), heap(elems(dag.Condition)),
//@            ghost launch, ghost hruns, ghost hlog, ghost nsetup, ghost nexec, ghost execfail, ghost dirty, ghost ntear,
//@            ghost eff.exec, ghost eff.env, ghost eff.fs, ghost eff.condfail, ghost eff.waited,
//@            ghost fs.*, ghost fw.*, ghost bw.*, ghost obs.exists*, ghost obs.stat*, ghost obs.mkdir*, ghost chk.fresh,
//@            ghost obs.run_calls, ghost obs.run_err, ghost outvar.stores, ghost outvar.key, ghost outvar.val, ghost env.key, ghost env.val, ghost obs.buf_string
//@   records eff.sched = old(eff.sched) + 1
//@   ensures [C03 scheduling_keeps_the_graph] nodes_wf(g) && graph_wf(g)
//@   expect calls go (*Scheduler).Schedule$1 >= 1
//@   expect calls isReady >= 1
//@   assert before go [C01,C10 deps_ok_at_launch]
//@        forall j int :: 0 <= j && j < len(g.to[arg0.id]) ==> dep_ok(g.dict[g.to[arg0.id][j]])
//@   assert before go [C03 running_before_spawn] arg0.data.State.Status == NodeStatusRunning
//@   assert before (*Node).setStatus [C03,C10 launched_from_none] arg1 == NodeStatusRunning ==> arg0.data.State.Status == NodeStatusNone
//@   assert before (*Node).setStatus [C15 below_limit]
//@        arg1 == NodeStatusRunning ==> (sc.maxActiveRuns > 0 ==> count_running(g, len(g.nodes)) < sc.maxActiveRuns)
//@   assert before context.WithTimeout [C05 run_deadline_is_the_configured_timeout] sc.timeout > 0 && arg1 == sc.timeout
//@   assert before go [C05 stop_flag_is_consulted_before_every_launch] chk.fresh
//@   assert before go [C01 launches_graph_node] arg0 == g.nodes[idx + 1]
//@   loop 1 step [C02 precondition_failure_skips]
//@        eff.condfail != iter(eff.condfail) ==>
//@           (g.nodes[idx].data.State.Status == NodeStatusSkipped && launch == iter(launch))
//@   loop 1 step [C03 at_most_one_launch_per_visit]
//@        launch == iter(launch) ||
//@        (launch == upd(iter(launch), g.nodes[idx], iter(launch[g.nodes[idx]]) + 1) &&
//@         (iter(g.nodes[idx].data.State.Status) == NodeStatusNone || iter(g.nodes[idx].data.State.Status) == NodeStatusRunning))
//@   loop 1 step [C02,C10 only_none_nodes_are_marked]
//@        forall i int :: 0 <= i && i < len(g.nodes) ==>
//@           (g.nodes[i].data.State.Status == iter(g.nodes[i].data.State.Status) || iter(g.nodes[i].data.State.Status) == NodeStatusRunning ||
//@            (g.nodes[i] == g.nodes[idx] && iter(g.nodes[i].data.State.Status) == NodeStatusNone))
//@   assert before (*Scheduler).runHandlerNode [C04 handlers_after_wait] eff.waited > old(eff.waited)
//@   assert before (*Scheduler).runHandlerNode [C04 handler_is_configured] arg2 != nil && arg2 == sc.handlers[h] && h == handlers[idx + 1]
//@   assert before (*Scheduler).runHandlerNode [C11 handler_gets_outputs] arg2.data.Step.OutputVariables == g.outputVariables
//@   loop 2 invariant [C04,C05 handler_list_shape]
//@        (len(handlers) == 1 || len(handlers) == 2) && handlers[len(handlers) - 1] == dag.HandlerOnExit &&
//@        (len(handlers) == 2 ==> handlers[0] != dag.HandlerOnExit)
//@   loop 2 invariant [C04,C05 handler_matches_outcome]
//@        idx == -1 ==> ((len(handlers) == 2 ==> handlers[0] == handler_for(outcome(sc, g))) &&
//@                       (len(handlers) == 1 ==> (outcome(sc, g) == StatusNone || outcome(sc, g) == StatusRunning)))
//@   loop 2 invariant [C04 handlers_run_in_order] hruns <= old(hruns) + idx + 1

// ---------------------------------------------------------------------------------------------
// Graph construction (C14, C01): names resolve exactly, edges are recorded in both directions, and a graph
// is admitted iff every dependency resolves and hasCycle says no.

//@ pred dict_wf(g *ExecutionGraph) = forall k int :: has(g.dict, k) ==> g.dict[k] != nil
//@ pred name_absent(g *ExecutionGraph, name string) = forall k int :: has(g.dict, k) ==> g.dict[k].data.Step.Name != name

//@ fn (*ExecutionGraph).findStep(g, name) (n, err)
//@   props C14 C01 C02 C03
//@   safety
//@   requires dict_wf(g)
//@   ensures [C14 found_is_a_node_with_that_name] err == nil ==>
//@        (n != nil && n.data.Step.Name == name && (exists k int :: has(g.dict, k) && g.dict[k] == n))
//@   ensures [C14 not_found_iff_no_such_step] err != nil <==> name_absent(g, name)
//@   ensures [C14 not_found_returns_nil] err != nil ==> n == nil
//@   loop 0 invariant forall k int :: visited(0, k) ==> (has(g.dict, k) && g.dict[k].data.Step.Name != name)

//@ fn (*ExecutionGraph).addEdge(g, from, to)
//@   props C14 C01 C02 C03
//@   safety
//@   requires g.from != nil && g.to != nil && g.from != g.to
//@   modifies contents(g.from), contents(g.to), heap(alloc)
//@   ensures [C14 edge_recorded_backward] len(g.to[to.id]) == old(len(g.to[to.id])) + 1 && g.to[to.id][old(len(g.to[to.id]))] == from.id
//@   ensures [C14 edge_recorded_forward] len(g.from[from.id]) == old(len(g.from[from.id])) + 1 && g.from[from.id][old(len(g.from[from.id]))] == to.id
//@   ensures [C14 earlier_edges_kept] forall j int :: 0 <= j && j < old(len(g.to[to.id])) ==> g.to[to.id][j] == old(g.to[to.id][j])
//@   ensures [C14 earlier_edges_kept_fwd] forall j int :: 0 <= j && j < old(len(g.from[from.id])) ==> g.from[from.id][j] == old(g.from[from.id][j])
//@   ensures [C14 other_nodes_untouched] forall k int :: k != to.id ==> (has(g.to, k) == old(has(g.to, k)) && g.to[k] == old(g.to[k]))
//@   ensures [C14 other_nodes_untouched_fwd] forall k int :: k != from.id ==> (has(g.from, k) == old(has(g.from, k)) && g.from[k] == old(g.from[k]))
//@   ensures [C14 other_lists_unchanged] forall k int, j int :: k != to.id && 0 <= j && j < len(g.to[k]) ==> g.to[k][j] == old(g.to[k][j])
//@   ensures [C14 other_lists_unchanged_fwd] forall k int, j int :: k != from.id && 0 <= j && j < len(g.from[k]) ==> g.from[k][j] == old(g.from[k][j])

// hasCycle: the functional contract (answer == "the dependency relation has a cycle") is decided by a bounded
// stand-in that executes the real function (DESIGN §2.12); callers see its answer through a ghost observation.
//@ ghost obs.cycle bool
//@ ghost obs.cycle_calls int
//@ fn (*ExecutionGraph).hasCycle(g) (r)
//@   props C14
//@   trusted
//@   modifies ghost obs.cycle, ghost obs.cycle_calls
//@   ensures obs.cycle == r && obs.cycle_calls == old(obs.cycle_calls) + 1

//@ pred ids_wf(g *ExecutionGraph) = forall k int :: has(g.dict, k) ==> g.dict[k].id == k
//@ pred edge_present(g *ExecutionGraph, i int, j int) = exists m int :: 0 <= m && m < len(g.to[g.nodes[i].id]) &&
//@      has(g.dict, g.to[g.nodes[i].id][m]) && g.dict[g.to[g.nodes[i].id][m]].data.Step.Name == g.nodes[i].data.Step.Depends[j]
//@ pred deps_resolve(g *ExecutionGraph) = forall i int, j int :: 0 <= i && i < len(g.nodes) && 0 <= j && j < len(g.nodes[i].data.Step.Depends) ==>
//@      !name_absent(g, g.nodes[i].data.Step.Depends[j])

//@ fn (*ExecutionGraph).setup(g) (err)
//@   props C14 C01 C02 C03
//@   safety
//@   requires dict_wf(g) && ids_wf(g) && nodes_wf(g) && g.from != nil && g.to != nil && g.from != g.to
//@   requires forall k int, j int :: 0 <= j && j < len(g.to[k]) ==> has(g.dict, g.to[k][j])
//@   requires forall k int, j int :: 0 <= j && j < len(g.from[k]) ==> has(g.dict, g.from[k][j])
//@   requires [nodes_in_dict] forall i int :: 0 <= i && i < len(g.nodes) ==> has(g.dict, g.nodes[i].id)
//@   modifies contents(g.from), contents(g.to), heap(alloc), ghost obs.cycle, ghost obs.cycle_calls
//@   expect calls (*ExecutionGraph).hasCycle >= 1
//@   assert before (*ExecutionGraph).hasCycle [C14 cycle_test_sees_every_edge]
//@        forall i int, j int :: 0 <= i && i < len(g.nodes) && 0 <= j && j < len(g.nodes[i].data.Step.Depends) ==> edge_present(g, i, j)
//@   ensures [C14 dangling_dependency_is_refused] !old(deps_resolve(g)) ==> err != nil
//@   ensures [C14 accepted_only_if_acyclic] err == nil ==> (obs.cycle_calls == old(obs.cycle_calls) + 1 && !obs.cycle)
//@   ensures [C14 resolvable_acyclic_is_accepted] old(deps_resolve(g)) ==> (obs.cycle_calls == old(obs.cycle_calls) + 1 && (err != nil <==> obs.cycle))
//@   ensures [C01,C02,C03 every_dependency_is_an_edge] err == nil ==>
//@        (forall i int, j int :: 0 <= i && i < len(g.nodes) && 0 <= j && j < len(g.nodes[i].data.Step.Depends) ==> edge_present(g, i, j))
//@   ensures [C01 edges_point_to_nodes] forall k int, j int :: 0 <= j && j < len(g.to[k]) ==> has(g.dict, g.to[k][j])
//@   ensures [C10 forward_edges_point_to_nodes] forall k int, j int :: 0 <= j && j < len(g.from[k]) ==> has(g.dict, g.from[k][j])
//@   loop 0 invariant [resolved_so_far] forall i int, j int :: 0 <= i && i <= idx && 0 <= j && j < len(g.nodes[i].data.Step.Depends) ==>
//@        (edge_present(g, i, j) && !old(name_absent(g, g.nodes[i].data.Step.Depends[j])))
//@   loop 0 invariant [edges_to_nodes] forall k int, j int :: 0 <= j && j < len(g.to[k]) ==> has(g.dict, g.to[k][j])
//@   loop 0 invariant [edges_from_nodes] forall k int, j int :: 0 <= j && j < len(g.from[k]) ==> has(g.dict, g.from[k][j])
//@   loop 0 invariant obs.cycle_calls == old(obs.cycle_calls)
//@   loop 1 invariant [resolved_so_far_outer] forall i int, j int :: 0 <= i && i <= idx0 && 0 <= j && j < len(g.nodes[i].data.Step.Depends) ==>
//@        (edge_present(g, i, j) && !old(name_absent(g, g.nodes[i].data.Step.Depends[j])))
//@   loop 1 invariant [resolved_so_far_inner] forall j int :: 0 <= j && j <= idx ==>
//@        (edge_present(g, idx0 + 1, j) && !old(name_absent(g, g.nodes[idx0 + 1].data.Step.Depends[j])))
//@   loop 1 invariant [edges_to_nodes_inner] forall k int, j int :: 0 <= j && j < len(g.to[k]) ==> has(g.dict, g.to[k][j])
//@   loop 1 invariant [edges_from_nodes_inner] forall k int, j int :: 0 <= j && j < len(g.from[k]) ==> has(g.dict, g.from[k][j])
//@   loop 1 invariant obs.cycle_calls == old(obs.cycle_calls)

// Node identities come from a process-wide counter: every id handed out is positive and below the counter.
//@ fn getNextNodeID() (v)
//@   props C14
//@   modifies nextNodeID
//@   ensures v == old(nextNodeID) && nextNodeID == old(nextNodeID) + 1

//@ fn (*Node).init(n)
//@   props C14 C01
//@   modifies n.id, n.data.Step.Variables, n.data.Step.Preconditions, nextNodeID, heap(alloc)
//@   ensures old(n.id) != 0 ==> (n.id == old(n.id) && nextNodeID == old(nextNodeID))
//@   ensures old(n.id) == 0 ==> (n.id == old(nextNodeID) && nextNodeID == old(nextNodeID) + 1)

//@ pred steps_absent(steps []dag.Step, name string) = forall k int :: 0 <= k && k < len(steps) ==> steps[k].Name != name

//@ fn NewExecutionGraph(lg, steps) (g, err)
//@   props C14 C01 C02 C03
//@   requires nextNodeID > 0
//@   modifies heap(alloc), nextNodeID, ghost obs.cycle, ghost obs.cycle_calls
//@   ensures [C14 refused_graph_is_nil] err != nil ==> g == nil
//@   ensures [C14 dangling_dependency_is_refused]
//@        (exists i int, j int :: 0 <= i && i < len(steps) && 0 <= j && j < len(steps[i].Depends) && old(steps_absent(steps, steps[i].Depends[j]))) ==> err != nil
//@   ensures [C14 accepted_only_if_acyclic] err == nil ==> (obs.cycle_calls == old(obs.cycle_calls) + 1 && !obs.cycle)
//@   ensures [C14 resolvable_acyclic_is_accepted]
//@        (forall i int, j int :: 0 <= i && i < len(steps) && 0 <= j && j < len(steps[i].Depends) ==> !old(steps_absent(steps, steps[i].Depends[j])))
//@        ==> (obs.cycle_calls == old(obs.cycle_calls) + 1 && (err != nil <==> obs.cycle))
//@   ensures [C01 graph_is_well_formed] err == nil ==> (g != nil && nodes_wf(g) && graph_wf(g) && dict_wf(g) && ids_wf(g) && len(g.nodes) == len(steps))
//@   ensures [C01 nodes_are_the_steps_not_started] err == nil ==> (forall i int :: 0 <= i && i < len(steps) ==>
//@        (g.nodes[i].data.Step.Name == old(steps[i].Name) && g.nodes[i].data.Step.Depends == old(steps[i].Depends) &&
//@         g.nodes[i].data.State.Status == NodeStatusNone && has(g.dict, g.nodes[i].id) && g.dict[g.nodes[i].id] == g.nodes[i]))
//@   loop 0 invariant graph != nil && graph.dict != nil && graph.from != nil && graph.to != nil && graph.from != graph.to
//@   loop 0 invariant nextNodeID > 0 && obs.cycle_calls == old(obs.cycle_calls)
//@   loop 0 invariant len(graph.nodes) == idx + 1 && nodes_wf(graph) && dict_wf(graph) && ids_wf(graph)
//@   loop 0 invariant forall k int :: has(graph.dict, k) ==> (0 < k && k < nextNodeID)
//@   loop 0 invariant [ids_are_consecutive] nextNodeID == old(nextNodeID) + idx + 1 &&
//@        (forall i int :: 0 <= i && i <= idx ==> graph.nodes[i].id == old(nextNodeID) + i)
//@   loop 0 invariant [every_key_is_a_listed_node] forall k int :: has(graph.dict, k) ==>
//@        (old(nextNodeID) <= k && k < nextNodeID && graph.nodes[k - old(nextNodeID)] == graph.dict[k])
//@   loop 0 invariant forall k int :: !has(graph.to, k) && !has(graph.from, k)
//@   loop 0 invariant forall i int :: 0 <= i && i <= idx ==>
//@        (graph.nodes[i].data.Step.Name == old(steps[i].Name) && graph.nodes[i].data.Step.Depends == old(steps[i].Depends) &&
//@         graph.nodes[i].data.State.Status == NodeStatusNone && has(graph.dict, graph.nodes[i].id) && graph.dict[graph.nodes[i].id] == graph.nodes[i])

// hasCycle, memory safety and frame (unbounded): no nil-map write, no index out of range on the work list, and
// nothing that existed before the call is written — in particular not the adjacency lists it walks.
//@ fn (*ExecutionGraph).hasCycle(g) (r) variant safety
//@   props C14 C01
//@   safety
//@   requires nodes_wf(g)
//@   modifies heap(alloc)

//@ fn New(cfg) (sc)
//@   props C03 C15
//@   modifies heap(alloc)
//@   ensures sc != nil && !wasAllocated(sc)
//@   ensures [C03 dry_flag_copied] sc.dry == cfg.Dry
//@   ensures [C15 limit_copied] sc.maxActiveRuns == cfg.MaxActiveRuns
//@   ensures sc.timeout == cfg.Timeout && sc.canceled == 0 && sc.lastError == nil
//@   ensures sc.onExit == cfg.OnExit && sc.onSuccess == cfg.OnSuccess && sc.onFailure == cfg.OnFailure && sc.onCancel == cfg.OnCancel

//@ fn (*Node).cancel(n)
//@   props C04 C05
//@   modifies n.data.State.Status
//@   ensures [C05 cancel_marks_running_as_canceled] n.data.State.Status == ite(old(n.data.State.Status) == NodeStatusRunning, NodeStatusCancel, old(n.data.State.Status))

//@ fn (*Scheduler).Cancel(sc, g)
//@   props C04 C05
//@   requires nodes_wf(g)
//@   modifies sc.canceled, heap(Node.data.State.Status)
//@   ensures [C04 cancel_sets_flag] sc.canceled == 1
//@   ensures [C05 cancel_marks_only_running_nodes] forall i int :: 0 <= i && i < len(g.nodes) ==>
//@        g.nodes[i].data.State.Status == ite(old(g.nodes[i].data.State.Status) == NodeStatusRunning, NodeStatusCancel, old(g.nodes[i].data.State.Status))
//@   loop 0 invariant sc.canceled == 1
//@   loop 0 invariant forall i int :: 0 <= i && i < len(g.nodes) ==>
//@        (g.nodes[i].data.State.Status == old(g.nodes[i].data.State.Status) ||
//@         (old(g.nodes[i].data.State.Status) == NodeStatusRunning && g.nodes[i].data.State.Status == NodeStatusCancel))
//@   loop 0 invariant forall i int :: 0 <= i && i <= idx ==> g.nodes[i].data.State.Status != NodeStatusRunning

// The words under which a status is shown and recorded (StatusText in the history and the API): each status has its
// own word, and only a successful run or step is called "finished".
//@ sfunc run_status_text(s Status) string = ite(s == StatusRunning, "running", ite(s == StatusError, "failed",
//@        ite(s == StatusCancel, "canceled", ite(s == StatusSuccess, "finished", "not started"))))
//@ sfunc step_status_text(s NodeStatus) string = ite(s == NodeStatusRunning, "running", ite(s == NodeStatusError, "failed",
//@        ite(s == NodeStatusCancel, "canceled", ite(s == NodeStatusSuccess, "finished", ite(s == NodeStatusSkipped, "skipped", "not started")))))
//@ fn (Status).String(s) (r)
//@   props C08 C04
//@   pure
//@   ensures [C08,C04 run_status_is_shown_under_its_own_name] r == run_status_text(s)
//@ fn (NodeStatus).String(s) (r)
//@   props C08 C02
//@   pure
//@   ensures [C08,C02 step_status_is_shown_under_its_own_name] r == step_status_text(s)

//@ ghost obs.nodedata_len int
//@ fn (*ExecutionGraph).NodeData(g) (ret)
//@   props C08
//@   requires nodes_wf(g)
//@   modifies heap(alloc), ghost obs.nodedata_len
//@   records obs.nodedata_len = len(ret)
//@   ensures [C08 snapshot_of_every_node] len(ret) == len(g.nodes)
//@   ensures [C08 snapshot_is_the_node_state] forall i int :: 0 <= i && i < len(g.nodes) ==> ret[i] == g.nodes[i].data
//@   loop 0 invariant len(ret) == idx + 1
//@   loop 0 invariant forall i int :: 0 <= i && i <= idx ==> ret[i] == g.nodes[i].data
//@ fn (*ExecutionGraph).StartAt(g) (r)
//@   props C08
//@   ensures r == g.startedAt
//@ fn (*ExecutionGraph).FinishAt(g) (r)
//@   props C08
//@   ensures r == g.finishedAt
//@ fn (*Scheduler).HandlerNode(sc, name) (n)
//@   props C08
//@   ensures n == ite(has(sc.handlers, name), sc.handlers[name], nil)
//@ fn (*Node).Data(n) (d)
//@   props C08
//@   ensures d == n.data

// ---------------------------------------------------------------------------------------------
// Retry (C10): which recorded steps are reset.  A step needs a rerun when its recorded status is failed, canceled or
// running (the record of a killed process); the walk resets such a step when it visits it, marks everything
// downstream, and touches nothing else.  (That the walk visits every step, i.e. the closure as a whole, is decided by
// the bounded stand-in c10_retry_closure, which runs this very function.)
//@ pred needs_rerun(s NodeStatus) = s == NodeStatusError || s == NodeStatusCancel || s == NodeStatusRunning

//@ fn (*Node).clearState(n)
//@   props C03 C10
//@   modifies n.data.State
//@   ensures [C03,C10 reset_step_is_not_started] n.data.State.Status == NodeStatusNone && n.data.State.Error == nil &&
//@        n.data.State.RetryCount == 0 && n.data.State.DoneCount == 0 && n.data.State.Log == ""

//@ pred retry_graph_wf(g *ExecutionGraph) = nodes_wf(g) && dict_wf(g) && ids_wf(g) && graph_wf(g) &&
//@      (forall i int :: 0 <= i && i < len(g.nodes) ==> (has(g.dict, g.nodes[i].id) && g.dict[g.nodes[i].id] == g.nodes[i])) &&
//@      (forall k int :: has(g.dict, k) ==> (len(g.nodes) > 0 && 0 <= k - g.nodes[0].id && k - g.nodes[0].id < len(g.nodes) && g.nodes[k - g.nodes[0].id] == g.dict[k])) &&
//@      (forall k int, j int :: 0 <= j && j < len(g.from[k]) ==> has(g.dict, g.from[k][j]))
//@ pred recorded(g *ExecutionGraph, dict map[int]NodeStatus) = forall k int :: has(g.dict, k) ==> dict[k] == old(g.dict[k].data.State.Status)

//@ pred is_reset(n *Node) = n.data.State.Status == NodeStatusNone && n.data.State.Error == nil && n.data.State.RetryCount == 0 &&
//@      n.data.State.DoneCount == 0 && n.data.State.Log == ""
//@ pred pending(k int, s []int, lo int) = inslice(s, lo, k)
//@ pred handled(g *ExecutionGraph, retry map[int]bool, k int) = is_reset(g.dict[k]) &&
//@      (forall j int :: 0 <= j && j < len(g.from[k]) ==> retry[g.from[k][j]])
// The table of steps to run again, as the walk leaves it (ghost copy of the local `retry` map).
//@ ghost rerun map[int]bool
//@ pred justified(g *ExecutionGraph, retry map[int]bool, dict map[int]NodeStatus, k int) = needs_rerun(dict[k]) ||
//@      (exists p int, j int :: has(g.dict, p) && retry[p] && 0 <= j && j < len(g.from[p]) && g.from[p][j] == k)

//@ fn (*ExecutionGraph).setupRetry(g) (err)
//@   props C10
//@   requires retry_graph_wf(g) && g.logger != nil
//@   modifies heap(Node.data.State), heap(alloc), ghost rerun
//@   records rerun = retry
//@   ensures err == nil
//@   ensures [C10 steps_are_kept_or_reset] forall k int :: has(g.dict, k) ==>
//@        (g.dict[k].data.State == old(g.dict[k].data.State) || is_reset(g.dict[k]))
//@   ensures [C10 rerun_set_is_closed_downstream] forall k int :: has(g.dict, k) && rerun[k] ==>
//@        (is_reset(g.dict[k]) && (forall j int :: 0 <= j && j < len(g.from[k]) ==> rerun[g.from[k][j]]))
//@   ensures [C10 rerun_set_is_justified] forall k int :: has(g.dict, k) && rerun[k] ==>
//@        (needs_rerun(old(g.dict[k].data.State.Status)) ||
//@         (exists p int, j int :: has(g.dict, p) && rerun[p] && 0 <= j && j < len(g.from[p]) && g.from[p][j] == k))
//@   ensures [C10 only_rerun_steps_are_touched] forall k int :: has(g.dict, k) && !rerun[k] ==> g.dict[k].data.State == old(g.dict[k].data.State)
//@   loop 0 modifies contents(dict), contents(retry)
//@   loop 0 invariant forall i int :: 0 <= i && i <= idx ==> dict[g.nodes[i].id] == g.nodes[i].data.State.Status
//@   loop 0 invariant forall k int :: !retry[k]
//@   loop 1 modifies heap(alloc)
//@   loop 1 invariant forall m int :: 0 <= m && m < len(frontier) ==> has(g.dict, frontier[m])
//@   loop 2 modifies contents(retry), heap(Node.data.State), heap(alloc)
//@   loop 2 invariant forall m int :: 0 <= m && m < len(frontier) ==> has(g.dict, frontier[m])
//@   loop 2 invariant [kept_or_reset] forall k int :: has(g.dict, k) ==>
//@        (g.dict[k].data.State == old(g.dict[k].data.State) || is_reset(g.dict[k]))
//@   loop 2 invariant [table_is_the_record] recorded(g, dict)
//@   loop 2 invariant [marked_is_justified] forall k int :: has(g.dict, k) && retry[k] ==> justified(g, retry, dict, k)
//@   loop 2 invariant [unmarked_is_untouched] forall k int :: has(g.dict, k) && !retry[k] ==> g.dict[k].data.State == old(g.dict[k].data.State)
//@   loop 2 invariant [marked_is_handled_or_pending] forall k int :: has(g.dict, k) && retry[k] ==>
//@        (handled(g, retry, k) || pending(k, frontier, 0))
//@   loop 3 modifies contents(retry), heap(Node.data.State), heap(alloc)
//@   loop 3 invariant forall m int :: 0 <= m && m < len(next) ==> has(g.dict, next[m])
//@   loop 3 invariant [kept_or_reset] forall k int :: has(g.dict, k) ==>
//@        (g.dict[k].data.State == old(g.dict[k].data.State) || is_reset(g.dict[k]))
//@   loop 3 invariant [table_is_the_record] recorded(g, dict)
//@   loop 3 invariant [marked_is_justified] forall k int :: has(g.dict, k) && retry[k] ==> justified(g, retry, dict, k)
//@   loop 3 invariant [unmarked_is_untouched] forall k int :: has(g.dict, k) && !retry[k] ==> g.dict[k].data.State == old(g.dict[k].data.State)
//@   loop 3 invariant [marked_is_handled_or_pending] forall k int :: has(g.dict, k) && retry[k] ==>
//@        (handled(g, retry, k) || pending(k, frontier, idx + 1) || pending(k, next, 0))
//@   loop 4 modifies contents(retry), heap(alloc)
//@   loop 4 invariant forall m int :: 0 <= m && m < len(next) ==> has(g.dict, next[m])
//@   loop 4 invariant [flag_of_visited_step_is_stable] retry[frontier[idx3 + 1]] == entry(retry[frontier[idx3 + 1]])
//@   loop 4 invariant [marked_so_far] forall j int :: 0 <= j && j <= idx ==>
//@        (retry[frontier[idx3 + 1]] ==> retry[g.from[frontier[idx3 + 1]][j]])
//@   loop 4 invariant [marks_only_grow] forall k int :: entry(retry[k]) ==> retry[k]
//@   loop 4 invariant [marked_is_justified] forall k int :: has(g.dict, k) && retry[k] ==> justified(g, retry, dict, k)
//@   loop 4 invariant [marked_is_handled_or_pending] forall k int :: has(g.dict, k) && retry[k] && k != frontier[idx3 + 1] ==>
//@        (handled(g, retry, k) || pending(k, frontier, idx3 + 2) || pending(k, next, 0))
//@   loop 3 step [C10 visited_step_is_reset_iff_it_needs_a_rerun]
//@        ((iter(retry[frontier[idx]]) || needs_rerun(dict[frontier[idx]])) ==>
//@             (is_reset(g.dict[frontier[idx]]) && retry[frontier[idx]])) &&
//@        (!(iter(retry[frontier[idx]]) || needs_rerun(dict[frontier[idx]])) ==>
//@             (g.dict[frontier[idx]].data.State == iter(g.dict[frontier[idx]].data.State) && !retry[frontier[idx]]))
//@   loop 3 step [C10 rerun_propagates_downstream] retry[frontier[idx]] ==>
//@        (forall j int :: 0 <= j && j < len(g.from[frontier[idx]]) ==> retry[g.from[frontier[idx]][j]])
//@   loop 3 step [C10 nothing_else_is_reset] forall k int :: has(g.dict, k) && k != frontier[idx] ==>
//@        g.dict[k].data.State == iter(g.dict[k].data.State)

// A node rebuilt from a record carries exactly the recorded step and state.
//@ fn NewNode(step, state) (n)
//@   props C10
//@   modifies heap(alloc)
//@   ensures [C10 node_is_the_given_step_and_state] n != nil && !wasAllocated(n) && n.data.Step == step && n.data.State == state && n.id == 0

// Retry graph (C10, C11): built from the recorded nodes, in order; recorded output variables are stored again under
// their names and exported; then the rerun set is computed (setupRetry).
//@ fn NewExecutionGraphForRetry$1(key, value) (r)
//@   props C11
//@   modifies ghost outvar.stores, ghost outvar.key, ghost outvar.val, ghost eff.env, ghost env.key, ghost env.val, heap(alloc)
//@   ensures [C11 recorded_output_is_restored_under_its_name] isType(key, "string") && isType(value, "string") ==>
//@        (r && outvar.stores == old(outvar.stores) + 1 && outvar.key == key && outvar.val == value &&
//@         eff.env == old(eff.env) + 1 && env.key == asType(key, "string") &&
//@         env.val == substr(asType(value, "string"), len(asType(key, "string")) + 1, len(asType(value, "string")) - len(asType(key, "string")) - 1))
//@   ensures [C11 malformed_entries_are_skipped] !(isType(key, "string") && isType(value, "string")) ==>
//@        (!r && outvar.stores == old(outvar.stores) && eff.env == old(eff.env))

//@ fn NewExecutionGraphForRetry(lg, nodes) (g, err)
//@   props C10 C11 C14
//@   requires nextNodeID > 0 && lg != nil
//@   requires forall i int :: 0 <= i && i < len(nodes) ==> (nodes[i] != nil && nodes[i].id == 0)
//@   requires forall i int, j int :: 0 <= i && i < j && j < len(nodes) ==> nodes[i] != nodes[j]
//@   modifies heap(Node.id), heap(Node.data.Step.OutputVariables), heap(Node.data.Step.Variables), heap(Node.data.Step.Preconditions),
//@            heap(Node.data.State), heap(alloc), nextNodeID, ghost obs.cycle, ghost obs.cycle_calls, ghost rerun,
//@            ghost outvar.stores, ghost outvar.key, ghost outvar.val, ghost eff.env, ghost env.key, ghost env.val
//@   ensures [C14 refused_graph_is_nil] err != nil ==> g == nil
//@   ensures [C14 accepted_only_if_acyclic] err == nil ==> (obs.cycle_calls == old(obs.cycle_calls) + 1 && !obs.cycle)
//@   ensures [C10 retry_graph_has_the_recorded_nodes_in_order] err == nil ==>
//@        (g != nil && retry_graph_wf(g) && len(g.nodes) == len(nodes) && (forall i int :: 0 <= i && i < len(nodes) ==> g.nodes[i] == nodes[i]))
//@   ensures [C10 rerun_set_is_closed_downstream] err == nil ==> (forall k int :: has(g.dict, k) && rerun[k] ==>
//@        (is_reset(g.dict[k]) && (forall j int :: 0 <= j && j < len(g.from[k]) ==> rerun[g.from[k][j]])))
//@   ensures [C10 rerun_set_is_justified] err == nil ==> (forall i int :: 0 <= i && i < len(nodes) && rerun[nodes[i].id] ==>
//@        (needs_rerun(old(nodes[i].data.State.Status)) ||
//@         (exists p int, j int :: has(g.dict, p) && rerun[p] && 0 <= j && j < len(g.from[p]) && g.from[p][j] == nodes[i].id)))
//@   ensures [C10 only_rerun_steps_are_touched] err == nil ==> (forall i int :: 0 <= i && i < len(nodes) && !rerun[nodes[i].id] ==>
//@        nodes[i].data.State == old(nodes[i].data.State))
//@   ensures [C10 steps_are_kept_or_reset] forall i int :: 0 <= i && i < len(nodes) ==>
//@        (nodes[i].data.State == old(nodes[i].data.State) || is_reset(nodes[i]))
//@   loop 0 modifies heap(Node.id), heap(Node.data.Step.OutputVariables), heap(Node.data.Step.Variables), heap(Node.data.Step.Preconditions),
//@            heap(alloc), nextNodeID, contents(graph.dict), graph.nodes,
//@            ghost outvar.stores, ghost outvar.key, ghost outvar.val, ghost eff.env, ghost env.key, ghost env.val
//@   loop 0 invariant graph != nil && graph.dict != nil && graph.from != nil && graph.to != nil && graph.from != graph.to && graph.logger == lg
//@   loop 0 invariant nextNodeID > 0
//@   loop 0 invariant len(graph.nodes) == idx + 1 && nodes_wf(graph) && dict_wf(graph) && ids_wf(graph)
//@   loop 0 invariant forall k int :: has(graph.dict, k) ==> (0 < k && k < nextNodeID)
//@   loop 0 invariant [ids_are_consecutive] nextNodeID == old(nextNodeID) + idx + 1 &&
//@        (forall i int :: 0 <= i && i <= idx ==> graph.nodes[i].id == old(nextNodeID) + i)
//@   loop 0 invariant [every_key_is_a_listed_node] forall k int :: has(graph.dict, k) ==>
//@        (old(nextNodeID) <= k && k < nextNodeID && graph.nodes[k - old(nextNodeID)] == graph.dict[k])
//@   loop 0 invariant forall k int :: !has(graph.to, k) && !has(graph.from, k)
//@   loop 0 invariant forall i int :: 0 <= i && i <= idx ==>
//@        (graph.nodes[i] == nodes[i] && has(graph.dict, nodes[i].id) && graph.dict[nodes[i].id] == nodes[i])
//@   loop 0 invariant forall i int :: idx < i && i < len(nodes) ==> nodes[i].id == 0

// ---------------------------------------------------------------------------------------------
// Stop (C05).  A step is live when it has a process handle and is running, or was already told to stop (marked
// canceled) but has not finished yet.  Every signal reaches every live step; nothing else.
//@ pred live(n *Node) = n.cmd != nil && (n.data.State.Status == NodeStatusRunning ||
//@      (n.data.State.Status == NodeStatusCancel && n.data.State.FinishedAt == 0))

//@ fn (*Node).signal(n, sig, allowOverride)
//@   props C05
//@   modifies n.data.State.Status, ghost kill.count, ghost kill.exec, ghost kill.sig
//@   ensures [C05 live_step_gets_the_stop_signal] old(live(n)) ==> (kill.count == old(kill.count) + 1 && kill.exec == n.cmd &&
//@        ite(allowOverride && n.data.Step.SignalOnStop != "",
//@            isType(kill.sig, "syscall.Signal") && asType(kill.sig, "syscall.Signal") == signal_num(n.data.Step.SignalOnStop), kill.sig == sig))
//@   ensures [C05 only_live_steps_are_signalled] !old(live(n)) ==> kill.count == old(kill.count)
//@   ensures [C05 signalled_running_step_is_marked_canceled] n.data.State.Status ==
//@        ite(old(n.data.State.Status) == NodeStatusRunning, NodeStatusCancel, old(n.data.State.Status))

// A step is stopping while it is marked canceled, has a process handle and has not finished: its process may still be
// alive (it may be ignoring the signal).  Signal's caller is told "done" only when no step is running or stopping, so
// that the agent's escalation to SIGKILL is still reached (repo fix 3448ebc).
//@ pred stopping(n *Node) = n.data.State.Status == NodeStatusCancel && n.data.State.FinishedAt == 0 && n.cmd != nil
//@ fn (*Node).isStopping(n) (r)
//@   props C05
//@   ensures [C05 stopping_is_canceled_unfinished_with_a_process] r <==> stopping(n)
//@ fn (*ExecutionGraph).isStopping(g) (r)
//@   props C05
//@   requires nodes_wf(g)
//@   ensures [C05 some_step_is_stopping] r <==> (exists i int :: 0 <= i && i < len(g.nodes) && stopping(g.nodes[i]))
//@   loop 0 invariant forall i int :: 0 <= i && i <= idx ==> !stopping(g.nodes[i])

// Scheduler.Signal: the stop is registered (canceled flag), and every step that does not repeat is handed the signal
// (so every live one receives it, Node.signal); a repeating step is not signalled — it finishes its iteration and the
// worker does not start another one (worker contract).  With a done channel it waits until nothing runs any more.
//@ fn (*Scheduler).Signal(sc, g, sig, done, allowOverride)
//@   props C05
//@   requires nodes_wf(g)
//@   modifies sc.canceled, heap(Node.data.State.Status), heap(alloc), ghost kill.count, ghost kill.exec, ghost kill.sig, ghost chk.fresh
//@   ensures [C05 stop_is_registered] sc.canceled == 1
//@   ensures [C05 done_only_when_no_step_is_running_or_stopping] done != nil ==>
//@        (forall i int :: 0 <= i && i < len(g.nodes) ==> (g.nodes[i].data.State.Status != NodeStatusRunning && !stopping(g.nodes[i])))
//@   expect calls (*ExecutionGraph).isStopping >= 1
//@   expect calls (*ExecutionGraph).IsRunning >= 1
//@   ensures [C05 signal_changes_running_to_canceled_only] forall i int :: 0 <= i && i < len(g.nodes) ==>
//@        (g.nodes[i].data.State.Status == old(g.nodes[i].data.State.Status) ||
//@         (old(g.nodes[i].data.State.Status) == NodeStatusRunning && g.nodes[i].data.State.Status == NodeStatusCancel && !g.nodes[i].data.Step.RepeatPolicy.Repeat))
//@   ensures [C05 no_step_is_left_running_unsignalled] forall i int :: 0 <= i && i < len(g.nodes) && !g.nodes[i].data.Step.RepeatPolicy.Repeat ==>
//@        g.nodes[i].data.State.Status != NodeStatusRunning
//@   loop 0 invariant sc.canceled == 1
//@   loop 0 invariant forall i int :: 0 <= i && i < len(g.nodes) ==>
//@        (g.nodes[i].data.State.Status == old(g.nodes[i].data.State.Status) ||
//@         (old(g.nodes[i].data.State.Status) == NodeStatusRunning && g.nodes[i].data.State.Status == NodeStatusCancel && !g.nodes[i].data.Step.RepeatPolicy.Repeat))
//@   loop 0 invariant forall i int :: 0 <= i && i <= idx && !g.nodes[i].data.Step.RepeatPolicy.Repeat ==> g.nodes[i].data.State.Status != NodeStatusRunning
//@   loop 0 step [C05 live_step_is_signalled_with_the_stop_signal] !g.nodes[idx].data.Step.RepeatPolicy.Repeat && iter(live(g.nodes[idx])) ==>
//@        (kill.count == iter(kill.count) + 1 && kill.exec == g.nodes[idx].cmd &&
//@         ite(allowOverride && g.nodes[idx].data.Step.SignalOnStop != "",
//@             isType(kill.sig, "syscall.Signal") && asType(kill.sig, "syscall.Signal") == signal_num(g.nodes[idx].data.Step.SignalOnStop), kill.sig == sig))
//@   loop 0 step [C05 repeating_step_is_not_signalled] g.nodes[idx].data.Step.RepeatPolicy.Repeat ==> kill.count == iter(kill.count)
