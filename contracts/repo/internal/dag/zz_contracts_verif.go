//go:build verif

// Contracts for package dag (comment-only file; no executable code).

package dag

// Output variables of a run live in a sync.Map shared by all steps; the ghost triple records the last Store.
//@ ghost outvar.stores int
//@ ghost outvar.key any
//@ ghost outvar.val any

//@ fn GetContext(ctx) (c, err)
//@   props C02 C11
//@   trusted
//@   noeffect
//@ fn (Context).WithEnv(c, env) (r)
//@   props C11
//@   trusted
//@   modifies heap(alloc)
//@ fn WithDagContext(ctx, dagContext) (r)
//@   props C11
//@   trusted
//@   noeffect
//@ fn NewContext(ctx, dag, finder, requestID, logFile) (r)
//@   props C11
//@   trusted
//@   noeffect

// Loading a definition for the scheduler daemon / listing: the ghost pair records the last outcome.
//@ ghost obs.meta_calls int
//@ ghost obs.meta_err error
//@ ghost obs.meta_dag *DAG

// The address of a run's control socket is a function of the DAG file's location and of nothing else — that is what
// makes "is a run of this file active?" answerable by whoever asks (C16): the location with blanks replaced, its
// base name without extension (cut to 49 characters when longer than 50) and the md5 of the whole location.
//@ sfunc sock_loc(loc string) string = replaceAll(loc, " ", "_")
//@ sfunc sock_name(loc string) string = str_replace(path_base(sock_loc(loc)), path_ext(path_base(sock_loc(loc))), "", 1)
//@ sfunc sock_addr(loc string) string = path_join("/tmp", "@blackdagger-" +
//@        ite(len(sock_name(loc)) > 50, substr(sock_name(loc), 0, 49), sock_name(loc)) + "-" + hex_of(md5_sum(sock_loc(loc))) + ".sock")
//@ fn (*DAG).SockAddr(d) (r)
//@   props C16
//@   modifies heap(alloc)
//@   ensures [C16 socket_address_is_a_function_of_the_file_location] r == sock_addr(d.Location)

// =============================================================================================
// The loader (C13, C19).  Every function between the entry points and the built DAG is verified for memory
// safety (nil dereference, nil-map write, index/slice bounds, unchecked type assertion) on arbitrary decoded
// definitions, and carries the effect contract: with noEval no process is spawned (eff.exec) and the
// environment of the loading process is not touched (eff.env).

// --- decoding: YAML / mapstructure / mergo internals are assumed total; they return any value of the static type,
// with pointer elements possibly nil and `any` fields holding arbitrary YAML values.
//@ fn unmarshalData(data) (cm, err)
//@   props C13 C19
//@   trusted
//@   modifies heap(alloc)
//@ fn readFile(file) (cfg, err)
//@   props C13 C19
//@   trusted
//@   modifies heap(alloc)
//@ fn decode(cm) (c, err)
//@   props C13 C19
//@   trusted
//@   modifies heap(alloc)
//@   ensures c != nil && !wasAllocated(c)
//@   ensures (c.HandlerOn.Exit == nil || !wasAllocated(c.HandlerOn.Exit)) && (c.HandlerOn.Success == nil || !wasAllocated(c.HandlerOn.Success)) &&
//@        (c.HandlerOn.Failure == nil || !wasAllocated(c.HandlerOn.Failure)) && (c.HandlerOn.Cancel == nil || !wasAllocated(c.HandlerOn.Cancel))
//@ fn merge(dst, src) (err)
//@   props C13 C19
//@   trusted
//@   modifies dst, heap(alloc)
//@   ensures dst.Steps == old(dst.Steps) || dst.Steps == old(src.Steps) || dst.Steps == nil || !wasAllocated(dst.Steps)
//@   ensures dst.HandlerOn.Exit == old(dst.HandlerOn.Exit) || dst.HandlerOn.Exit == old(src.HandlerOn.Exit) || !wasAllocated(dst.HandlerOn.Exit)
//@   ensures dst.HandlerOn.Success == old(dst.HandlerOn.Success) || dst.HandlerOn.Success == old(src.HandlerOn.Success) || !wasAllocated(dst.HandlerOn.Success)
//@   ensures dst.HandlerOn.Failure == old(dst.HandlerOn.Failure) || dst.HandlerOn.Failure == old(src.HandlerOn.Failure) || !wasAllocated(dst.HandlerOn.Failure)
//@   ensures dst.HandlerOn.Cancel == old(dst.HandlerOn.Cancel) || dst.HandlerOn.Cancel == old(src.HandlerOn.Cancel) || !wasAllocated(dst.HandlerOn.Cancel)
//@ fn craftFilePath(file) (r, err)
//@   props C13 C19
//@   safety
//@   modifies heap(alloc)
//@ fn defaultName(file) (r)
//@   props C13
//@   safety

// --- leaves that may have effects
//@ fn substituteCommands(input) (r, err)
//@   props C13 C19
//@   safety
//@   modifies heap(alloc), ghost eff.exec
//@   ensures [C19 substitution_only_spawns] eff.exec >= old(eff.exec)
//@   loop 0 invariant 0 <= i && eff.exec >= old(eff.exec)

// What the tokenizer returned last (the regular expression itself is outside the model: see the bounded stand-in).
//@ ghost obs.parsed []paramPair
//@ fn parseParamValue(input, executeCommandSubstitution) (params, err)
//@   props C13 C19 C11
//@   safety
//@   modifies heap(alloc), ghost eff.exec, ghost obs.parsed
//@   records obs.parsed = params
//@   ensures [C19 params_run_commands_only_when_asked] !executeCommandSubstitution ==> eff.exec == old(eff.exec)
//@   loop 0 invariant !executeCommandSubstitution ==> eff.exec == old(eff.exec)

//@ fn stringifyParam(param) (r)
//@   props C11 C13
//@   ensures [C11 named_param_is_name_equals_value] r == ite(param.name != "", param.name + "=" + param.value, param.value)

// parseParams: one entry per parsed parameter, in order, written NAME=value (or just the value); parameter i is
// exported as $i with exactly that text (a positional parameter: its value) and a named one also as $NAME.
//@ fn parseParams(value, eval, options) (params, envs, err)
//@   props C13 C19 C11
//@   safety
//@   modifies heap(alloc), ghost eff.exec, ghost eff.env, ghost env.key, ghost env.val, ghost obs.parsed
//@   ensures [C19 no_eval_no_effect] !eval && options.noEval ==> (eff.exec == old(eff.exec) && eff.env == old(eff.env))
//@   ensures [C11 one_entry_per_parameter_in_order] err == nil ==> len(params) == len(obs.parsed)
//@   ensures [C11 entry_is_the_value_or_name_equals_value] err == nil && !eval ==> (forall k int :: 0 <= k && k < len(params) ==>
//@        params[k] == ite(obs.parsed[k].name != "", obs.parsed[k].name + "=" + obs.parsed[k].value, obs.parsed[k].value))
//@   ensures [C11 nothing_is_exported_without_evaluation] options.noEval ==> eff.env == old(eff.env)
//@   assert before os.Setenv#0 [C11 parameter_i_is_exported_as_dollar_i] !options.noEval && arg0 == itoa(i + 1) &&
//@        arg1 == ite(p.name == "", p.value, p.name + "=" + p.value)
//@   assert before os.Setenv#1 [C11 named_parameter_is_exported_under_its_name] !options.noEval && p.name != "" && arg0 == p.name && arg1 == p.value
//@   loop 0 invariant !eval && options.noEval ==> (eff.exec == old(eff.exec) && eff.env == old(eff.env))
//@   loop 0 invariant options.noEval ==> eff.env == old(eff.env)
//@   loop 0 invariant len(ret) == idx + 1 && obs.parsed == parsedParams
//@   loop 0 invariant !eval ==> (forall k int :: 0 <= k && k <= idx ==>
//@        ret[k] == ite(parsedParams[k].name != "", parsedParams[k].name + "=" + parsedParams[k].value, parsedParams[k].value))

//@ fn parseKeyValue(m, pairs) (err)
//@   props C13 C19
//@   safety
//@   modifies pairs, heap(alloc)

//@ fn loadVariables(strVariables, opts) (vars, err)
//@   props C13 C19
//@   safety
//@   modifies heap(alloc), ghost eff.exec, ghost eff.env, ghost env.key, ghost env.val
//@   ensures [C19 no_eval_no_effect] opts.noEval ==> (eff.exec == old(eff.exec) && eff.env == old(eff.env))
//@   ensures err == nil ==> vars != nil
//@   loop 0 invariant opts.noEval ==> (eff.exec == old(eff.exec) && eff.env == old(eff.env))
//@   loop 1 invariant opts.noEval ==> (eff.exec == old(eff.exec) && eff.env == old(eff.env))

//@ fn buildConfigEnv(vars) (ret)
//@   props C13
//@   safety
//@   modifies heap(alloc)
//@ fn buildConditions(cond) (ret)
//@   props C13
//@   safety
//@   requires forall i int :: 0 <= i && i < len(cond) ==> cond[i] != nil
//@   modifies heap(alloc)
//@ fn parseTags(value) (ret)
//@   props C13
//@   safety
//@   modifies heap(alloc)
//@ fn parseKey(value) (r, err)
//@   props C13
//@   safety
//@ fn extractParamNames(command) (r)
//@   props C13
//@   safety
//@   modifies heap(alloc)
//@ fn assignValues(command, params) (r)
//@   props C13
//@   safety
//@   modifies heap(alloc)

// --- schedules
//@ fn parseSchedules(values) (ret, err)
//@   props C13 C09
//@   safety
//@   modifies heap(alloc)
//@   ensures [C13 stored_schedules_are_parseable] err == nil ==> (len(ret) == len(values) &&
//@        (forall i int :: 0 <= i && i < len(ret) ==> (cron_valid(ret[i].Expression) && ret[i].Expression == values[i] && ret[i].Parsed != nil)))
//@   ensures [C13 unparseable_schedule_is_rejected] (exists i int :: 0 <= i && i < len(values) && !cron_valid(values[i])) ==> err != nil
//@   loop 0 invariant len(ret) == idx + 1
//@   loop 0 invariant forall i int :: 0 <= i && i <= idx ==> (cron_valid(ret[i].Expression) && ret[i].Expression == values[i] && ret[i].Parsed != nil && cron_valid(values[i]))

//@ fn parseScheduleMap(scheduleMap, starts, stops, restarts) (err)
//@   props C13
//@   safety
//@   modifies starts, stops, restarts, heap(alloc)

//@ fn (*builder).buildSchedule(b) (err)
//@   props C13 C19
//@   safety
//@   requires b.def != nil && b.dag != nil
//@   modifies b.dag.Schedule, b.dag.StopSchedule, b.dag.RestartSchedule, heap(alloc)
//@   ensures [C13 accepted_schedules_parse] err == nil ==>
//@        ((forall i int :: 0 <= i && i < len(b.dag.Schedule) ==> cron_valid(b.dag.Schedule[i].Expression)) &&
//@         (forall i int :: 0 <= i && i < len(b.dag.StopSchedule) ==> cron_valid(b.dag.StopSchedule[i].Expression)) &&
//@         (forall i int :: 0 <= i && i < len(b.dag.RestartSchedule) ==> cron_valid(b.dag.RestartSchedule[i].Expression)))

// --- the builder: each method builds one part of the DAG
//@ pred def_wf(def *definition) =
//@      (forall i int :: 0 <= i && i < len(def.Preconditions) ==> def.Preconditions[i] != nil) &&
//@      (forall i int :: 0 <= i && i < len(def.Functions) ==> def.Functions[i] != nil) &&
//@      (forall i int :: 0 <= i && i < len(def.Steps) ==> (def.Steps[i] != nil && step_def_wf(def.Steps[i]))) &&
//@      (def.HandlerOn.Exit != nil ==> step_def_wf(def.HandlerOn.Exit)) && (def.HandlerOn.Success != nil ==> step_def_wf(def.HandlerOn.Success)) &&
//@      (def.HandlerOn.Failure != nil ==> step_def_wf(def.HandlerOn.Failure)) && (def.HandlerOn.Cancel != nil ==> step_def_wf(def.HandlerOn.Cancel))
//@ pred step_def_wf(sd *stepDef) = forall i int :: 0 <= i && i < len(sd.Preconditions) ==> sd.Preconditions[i] != nil

//@ fn hasNullCondition(conds) (r)
//@   props C13
//@   safety
//@   ensures [C13 null_condition_is_detected] !r <==> (forall i int :: 0 <= i && i < len(conds) ==> conds[i] != nil)
//@   loop 0 invariant forall i int :: 0 <= i && i <= idx ==> conds[i] != nil

//@ fn assertNoNullEntries(def) (err)
//@   props C13
//@   safety
//@   ensures [C13 null_entries_are_rejected] err == nil ==> def_wf(def)
//@   loop 0 invariant forall i int :: 0 <= i && i <= idx ==> def.Functions[i] != nil
//@   loop 1 invariant forall i int :: 0 <= i && i < len(def.Functions) ==> def.Functions[i] != nil
//@   loop 1 invariant forall i int :: 0 <= i && i <= idx ==> (def.Steps[i] != nil && step_def_wf(def.Steps[i]))
//@   loop 1 invariant forall i int :: 0 <= i && i < len(def.Preconditions) ==> def.Preconditions[i] != nil

//@ fn assertFunctions(fns) (err)
//@   props C13
//@   safety
//@   requires forall i int :: 0 <= i && i < len(fns) ==> fns[i] != nil
//@   modifies heap(alloc)
//@   loop 1 invariant 0 <= i

//@ fn assertStepDef(def, funcs) (err)
//@   props C13
//@   safety
//@   requires forall i int :: 0 <= i && i < len(funcs) ==> funcs[i] != nil
//@   modifies heap(alloc)
//@   ensures [C13 accepted_step_has_a_name] err == nil ==> def.Name != ""

//@ fn parseFuncCall(step, call, funcs) (err)
//@   props C13
//@   safety
//@   nullable call
//@   requires forall i int :: 0 <= i && i < len(funcs) ==> funcs[i] != nil
//@   modifies step.Args, step.Command, step.CmdWithArgs, heap(alloc)
//@ fn parseCommand(def, step) (err)
//@   props C13
//@   safety
//@   modifies step.Args, step.Command, step.CmdWithArgs, heap(alloc)
//@ fn convertKeys(mm) (ret, err)
//@   props C13
//@   safety
//@   modifies heap(alloc)
//@   ensures err == nil ==> (ret != nil && !wasAllocated(ret))
//@ fn convertList(list, queue) (err)
//@   props C13
//@   safety
//@   modifies queue, contents(list), heap(alloc), heap(elems(any))
//@   ensures [C13 queue_only_grows] len(deref(queue)) >= old(len(deref(queue)))
//@   loop 0 invariant len(deref(queue)) >= old(len(deref(queue)))
//@ fn convertMap(m) (err)
//@   props C13
//@   safety
//@   modifies heap(alloc), heap(map(string, any)), heap(elems(any))
//@   loop 1 invariant len(queue) >= 1
//@ fn parseExecutor(def, step) (err)
//@   props C13
//@   safety
//@   requires step.ExecutorConfig.Config != nil
//@   modifies step.ExecutorConfig.Type, heap(alloc), heap(map(string, any)), heap(elems(any))
//@ fn parseSubWorkflow(def, step) (err)
//@   props C13
//@   safety
//@   modifies step.SubWorkflow, step.ExecutorConfig.Type, step.Command, step.Args, step.CmdWithArgs, heap(alloc)
//@ fn parseMiscs(def, step) (err)
//@   props C13 C05
//@   safety
//@   modifies step.ContinueOn, step.RetryPolicy, step.RepeatPolicy, step.SignalOnStop, heap(alloc)
//@   ensures [C13 accepted_stop_signal_is_a_signal_name] err == nil && def.SignalOnStop != nil ==> signal_num(step.SignalOnStop) != 0
//@   ensures [C13 no_stop_signal_configured] def.SignalOnStop == nil ==> step.SignalOnStop == old(step.SignalOnStop)

//@ fn (*stepBuilder).buildStep(b, variables, def, fns) (step, err)
//@   props C13 C19
//@   safety
//@   funcset stepBuilderFuncs = parseCommand, parseExecutor, parseSubWorkflow, parseMiscs
//@   requires step_def_wf(def) && (forall i int :: 0 <= i && i < len(fns) ==> fns[i] != nil)
//@   modifies heap(alloc), heap(map(string, any)), heap(elems(any))
//@   loop 0 invariant step != nil && !wasAllocated(step) && step.Name == def.Name && step.ExecutorConfig.Config != nil && !wasAllocated(step.ExecutorConfig.Config)
//@   loop 0 invariant step.SignalOnStop != "" ==> signal_num(step.SignalOnStop) != 0
//@   ensures [C13 accepted_step_has_a_name_and_something_to_execute] err == nil ==>
//@        (step != nil && step.Name != "" && step.Name == def.Name && (step.Command != "" || step.ExecutorConfig.Type != "" || step.SubWorkflow != nil))
//@   ensures [C13 accepted_step_stop_signal_is_valid] err == nil && step.SignalOnStop != "" ==> signal_num(step.SignalOnStop) != 0
//@   ensures err != nil ==> step == nil
//@   ensures err == nil ==> !wasAllocated(step)

//@ fn buildMailConfig(def) (r, err)
//@   props C13
//@   safety
//@   modifies heap(alloc)
//@   ensures err == nil && r != nil

//@ fn (*builder).buildEnvs(b) (err)
//@   props C13 C19
//@   safety
//@   requires b.def != nil && b.dag != nil
//@   modifies b.dag.Env, heap(alloc), ghost eff.exec, ghost eff.env, ghost env.key, ghost env.val
//@   ensures [C19 no_eval_no_effect] b.opts.noEval ==> (eff.exec == old(eff.exec) && eff.env == old(eff.env))
//@ fn (*builder).buildMailOn(b) (err)
//@   props C13 C19
//@   safety
//@   requires b.def != nil && b.dag != nil
//@   modifies b.dag.MailOn, heap(alloc)
//@ fn (*builder).buildParams(b) (err)
//@   props C11 C13 C19
//@   safety
//@   requires b.def != nil && b.dag != nil
//@   modifies b.dag.DefaultParams, b.dag.Params, b.dag.Env, heap(alloc), ghost eff.exec, ghost eff.env, ghost env.key, ghost env.val, ghost obs.parsed
//@   ensures [C19 no_eval_no_effect] b.opts.noEval ==> (eff.exec == old(eff.exec) && eff.env == old(eff.env))
//@   assert before parseParams [C11 given_parameters_replace_the_defaults] arg0 == ite(b.opts.parameters != "", b.opts.parameters, b.def.Params) &&
//@        arg1 == !b.opts.noEval && arg2 == b.opts
//@ fn (*builder).buildSteps(b) (err)
//@   props C13 C19
//@   safety
//@   requires b.def != nil && b.dag != nil && def_wf(b.def)
//@   modifies b.dag.Steps, heap(alloc), heap(map(string, any)), heap(elems(any))
//@   ensures err == nil ==> (b.dag.Steps == nil || !wasAllocated(b.dag.Steps))
//@   ensures [C13 every_accepted_step_is_runnable] err == nil ==> (forall i int :: 0 <= i && i < len(b.dag.Steps) ==>
//@        (b.dag.Steps[i].Name != "" && (b.dag.Steps[i].Command != "" || b.dag.Steps[i].ExecutorConfig.Type != "" || b.dag.Steps[i].SubWorkflow != nil) &&
//@         (b.dag.Steps[i].SignalOnStop != "" ==> signal_num(b.dag.Steps[i].SignalOnStop) != 0)))
//@   loop 0 invariant ret == nil || !wasAllocated(ret)
//@   loop 0 invariant forall i int :: 0 <= i && i < len(ret) ==>
//@        (ret[i].Name != "" && (ret[i].Command != "" || ret[i].ExecutorConfig.Type != "" || ret[i].SubWorkflow != nil) &&
//@         (ret[i].SignalOnStop != "" ==> signal_num(ret[i].SignalOnStop) != 0))
//@   loop 0 invariant b.def == old(b.def) && b.dag == old(b.dag) && b.def.Steps == old(b.def.Steps) && b.def.Functions == old(b.def.Functions) && def_wf(b.def)
//@ fn (*builder).buildLogDir(b) (err)
//@   props C13 C19
//@   safety
//@   requires b.def != nil && b.dag != nil
//@   modifies b.dag.LogDir, heap(alloc), ghost eff.exec
//@   ensures [C19 no_eval_no_effect] b.opts.noEval ==> eff.exec == old(eff.exec)
//@ fn (*builder).buildHandlers(b) (err)
//@   props C13 C19
//@   safety
//@   requires b.def != nil && b.dag != nil && def_wf(b.def)
//@   modifies b.dag.HandlerOn, b.def.HandlerOn.Exit.Name, b.def.HandlerOn.Success.Name, b.def.HandlerOn.Failure.Name, b.def.HandlerOn.Cancel.Name, heap(alloc), heap(map(string, any)), heap(elems(any))
//@   ensures err == nil ==> handlers_kept_or_fresh(b.dag)
//@ fn (*builder).buildSMTPConfig(b) (err)
//@   props C13 C19
//@   safety
//@   requires b.def != nil && b.dag != nil
//@   modifies b.dag.SMTP, heap(alloc)
//@ fn (*builder).buildErrMailConfig(b) (err)
//@   props C13 C19
//@   safety
//@   requires b.def != nil && b.dag != nil
//@   modifies b.dag.ErrorMail, heap(alloc)
//@ fn (*builder).buildInfoMailConfig(b) (err)
//@   props C13 C19
//@   safety
//@   requires b.def != nil && b.dag != nil
//@   modifies b.dag.InfoMail, heap(alloc)
//@ fn (*builder).buildMiscs(b) (err)
//@   props C13 C19
//@   safety
//@   requires b.def != nil && b.dag != nil && def_wf(b.def)
//@   modifies b.dag.HistRetentionDays, b.dag.Preconditions, b.dag.MaxActiveRuns, b.dag.MaxCleanUpTime, heap(alloc)

//@ fn (*errorList).Add(e, err)
//@   props C13 C19
//@   safety
//@   modifies e, heap(alloc)
//@   ensures [C13 every_reported_error_is_kept] len(deref(e)) == old(len(deref(e))) + ite(err != nil, 1, 0)
//@ fn (*builder).callBuilderFunc(b, fn)
//@   props C13 C19
//@   inline

//@ fn (HandlerType).String(h) (r)
//@   props C13
//@   trusted
//@   pure

// --- build: one definition -> one DAG
//@ fn (*builder).build(b, def, envs) (d, err)
//@   props C13 C19
//@   safety
//@   modifies b, def.HandlerOn.Exit.Name, def.HandlerOn.Success.Name, def.HandlerOn.Failure.Name, def.HandlerOn.Cancel.Name, heap(alloc), heap(map(string, any)), heap(elems(any)), ghost eff.exec, ghost eff.env, ghost env.key, ghost env.val, ghost obs.parsed
//@   ensures [C19 no_eval_no_effect] old(b.opts.noEval) ==> (eff.exec == old(eff.exec) && eff.env == old(eff.env))
//@   ensures [C13 error_or_dag] (err == nil) <==> (d != nil)
//@   ensures err == nil ==> (!wasAllocated(d) && (d.Steps == nil || !wasAllocated(d.Steps)) && handlers_fresh(d))
//@   ensures [C13 accepted_definition_is_runnable] err == nil && !old(b.opts.metadataOnly) ==> dag_runnable(d)
//@   ensures [C13 accepted_schedules_parse] err == nil ==> dag_schedules_valid(d)

//@ pred handlers_fresh(d *DAG) = (d.HandlerOn.Exit == nil || !wasAllocated(d.HandlerOn.Exit)) && (d.HandlerOn.Success == nil || !wasAllocated(d.HandlerOn.Success)) &&
//@      (d.HandlerOn.Failure == nil || !wasAllocated(d.HandlerOn.Failure)) && (d.HandlerOn.Cancel == nil || !wasAllocated(d.HandlerOn.Cancel))
//@ pred handlers_kept_or_fresh(d *DAG) twostate = (d.HandlerOn.Exit == old(d.HandlerOn.Exit) || !wasAllocated(d.HandlerOn.Exit)) && (d.HandlerOn.Success == old(d.HandlerOn.Success) || !wasAllocated(d.HandlerOn.Success)) &&
//@      (d.HandlerOn.Failure == old(d.HandlerOn.Failure) || !wasAllocated(d.HandlerOn.Failure)) && (d.HandlerOn.Cancel == old(d.HandlerOn.Cancel) || !wasAllocated(d.HandlerOn.Cancel))
//@ pred step_runnable(s Step) = s.Name != "" && (s.Command != "" || s.ExecutorConfig.Type != "" || s.SubWorkflow != nil) &&
//@      (s.SignalOnStop != "" ==> signal_num(s.SignalOnStop) != 0)
//@ pred dag_runnable(d *DAG) = forall i int :: 0 <= i && i < len(d.Steps) ==>
//@      (d.Steps[i].Name != "" && (d.Steps[i].Command != "" || d.Steps[i].ExecutorConfig.Type != "" || d.Steps[i].SubWorkflow != nil) &&
//@       (d.Steps[i].SignalOnStop != "" ==> signal_num(d.Steps[i].SignalOnStop) != 0))
//@ pred dag_schedules_valid(d *DAG) =
//@      (forall i int :: 0 <= i && i < len(d.Schedule) ==> cron_valid(d.Schedule[i].Expression)) &&
//@      (forall i int :: 0 <= i && i < len(d.StopSchedule) ==> cron_valid(d.StopSchedule[i].Expression)) &&
//@      (forall i int :: 0 <= i && i < len(d.RestartSchedule) ==> cron_valid(d.RestartSchedule[i].Expression))

// --- entry points
//@ fn loadYAML(data, opts) (d, err)
//@   props C13 C19
//@   safety
//@   modifies heap(alloc), heap(map(string, any)), heap(elems(any)), ghost eff.exec, ghost eff.env, ghost env.key, ghost env.val, ghost obs.parsed, ghost obs.exists_calls, ghost obs.exists, ghost obs.exists_path, ghost obs.stat_err, ghost obs.stat_path
//@   ensures [C19 no_eval_no_effect] opts.noEval ==> (eff.exec == old(eff.exec) && eff.env == old(eff.env))
//@   ensures [C13 error_or_dag] err == nil ==> d != nil
//@   ensures [C13 accepted_definition_is_runnable] err == nil && !opts.metadataOnly ==> dag_runnable(d)

//@ ghost obs.validate_err error      // outcome of the last LoadYAML (validation on save)
//@ fn LoadYAML(data) (d, err)
//@   props C13 C19 C18
//@   safety
//@   records obs.validate_err = err
//@   modifies heap(alloc), heap(map(string, any)), heap(elems(any)), ghost eff.exec, ghost eff.env, ghost env.key, ghost env.val, ghost obs.parsed, ghost obs.exists_calls, ghost obs.exists, ghost obs.exists_path, ghost obs.stat_err, ghost obs.stat_path
//@   ensures [C19 validating_has_no_side_effects] eff.exec == old(eff.exec) && eff.env == old(eff.env)
//@   ensures [C13 error_or_runnable_dag] err == nil ==> (d != nil && dag_runnable(d))

//@ fn loadBaseConfig(file, opts) (d, err)
//@   props C13 C19
//@   safety
//@   ensures err == nil && d != nil ==> (!wasAllocated(d) && (d.Steps == nil || !wasAllocated(d.Steps)) && handlers_fresh(d))
//@   modifies heap(alloc), heap(map(string, any)), heap(elems(any)), ghost eff.exec, ghost eff.env, ghost env.key, ghost env.val, ghost obs.parsed, ghost obs.exists_calls, ghost obs.exists, ghost obs.exists_path, ghost obs.stat_err, ghost obs.stat_path
//@   ensures [C19 no_eval_no_effect] opts.noEval ==> (eff.exec == old(eff.exec) && eff.env == old(eff.env))
//@ fn loadBaseConfigIfRequired(baseConfig, opts) (d, err)
//@   props C13 C19
//@   safety
//@   modifies heap(alloc), heap(map(string, any)), heap(elems(any)), ghost eff.exec, ghost eff.env, ghost env.key, ghost env.val, ghost obs.parsed, ghost obs.exists_calls, ghost obs.exists, ghost obs.exists_path, ghost obs.stat_err, ghost obs.stat_path
//@   ensures [C19 no_eval_no_effect] opts.noEval ==> (eff.exec == old(eff.exec) && eff.env == old(eff.env))
//@   ensures err == nil ==> (d != nil && !wasAllocated(d) && (d.Steps == nil || !wasAllocated(d.Steps)) && handlers_fresh(d))

//@ fn (*Step).setup(s, workDir)
//@   props C13
//@   safety
//@   modifies s.Dir
//@ fn (*DAG).setup(d)
//@   props C13
//@   safety
//@   modifies d.HistRetentionDays, d.MaxCleanUpTime, contents(d.Steps), d.HandlerOn.Exit.Dir, d.HandlerOn.Success.Dir, d.HandlerOn.Failure.Dir, d.HandlerOn.Cancel.Dir
//@   ensures [C13 defaults_keep_steps_runnable] old(dag_runnable(d)) ==> dag_runnable(d)
//@   loop 0 invariant old(dag_runnable(d)) ==> dag_runnable(d)
//@   loop 0 invariant d.Steps == old(d.Steps)

//@ fn loadDAG(dag, opts) (d, err)
//@   props C13 C19
//@   safety
//@   modifies heap(alloc), heap(map(string, any)), heap(elems(any)), ghost eff.exec, ghost eff.env, ghost env.key, ghost env.val, ghost obs.parsed, ghost obs.exists_calls, ghost obs.exists, ghost obs.exists_path, ghost obs.stat_err, ghost obs.stat_path
//@   ensures [C19 no_eval_no_effect] opts.noEval ==> (eff.exec == old(eff.exec) && eff.env == old(eff.env))
//@   ensures [C13 error_or_dag] err == nil ==> d != nil

// Load: the DAG as it is run (start, retry, restart) — built from the file with exactly the given parameter text.
//@ fn Load(base, dag, params) (d, err)
//@   props C10 C11 C13
//@   safety
//@   modifies heap(alloc), heap(map(string, any)), heap(elems(any)), ghost eff.exec, ghost eff.env, ghost env.key, ghost env.val, ghost obs.parsed, ghost obs.exists_calls, ghost obs.exists, ghost obs.exists_path, ghost obs.stat_err, ghost obs.stat_path
//@   ensures [C13 error_or_dag] err == nil ==> d != nil
//@   assert before loadDAG [C11 given_parameters_reach_the_builder] arg0 == dag && arg1.parameters == params && arg1.base == base && !arg1.noEval && !arg1.metadataOnly

//@ fn LoadWithoutEval(dag) (d, err)
//@   props C13 C19
//@   safety
//@   modifies heap(alloc), heap(map(string, any)), heap(elems(any)), ghost eff.exec, ghost eff.env, ghost env.key, ghost env.val, ghost obs.parsed, ghost obs.exists_calls, ghost obs.exists, ghost obs.exists_path, ghost obs.stat_err, ghost obs.stat_path
//@   ensures [C19 viewing_has_no_side_effects] eff.exec == old(eff.exec) && eff.env == old(eff.env)
//@   ensures err == nil ==> d != nil

//@ fn LoadMetadata(dag) (d, err)
//@   props C09 C13 C19
//@   safety
//@   modifies heap(alloc), heap(map(string, any)), heap(elems(any)), ghost eff.exec, ghost eff.env, ghost env.key, ghost env.val, ghost obs.parsed, ghost obs.exists_calls, ghost obs.exists, ghost obs.exists_path, ghost obs.stat_err, ghost obs.stat_path
//@   records obs.meta_calls = old(obs.meta_calls) + 1
//@   records obs.meta_err = err
//@   records obs.meta_dag = d
//@   ensures [C19 listing_has_no_side_effects] eff.exec == old(eff.exec) && eff.env == old(eff.env)
//@   ensures err == nil ==> d != nil

// --- preconditions
//@ fn (Condition).eval(c) (r, err)
//@   props C13 C02 C04
//@   safety
//@   modifies heap(alloc), ghost eff.exec
//@ fn evalCondition(c) (err)
//@   props C13 C02 C04
//@   safety
//@   modifies heap(alloc), ghost eff.exec
//@ fn EvalConditions(cond) (err)
//@   props C13 C02 C04
//@   safety
//@   modifies heap(alloc), ghost eff.exec
//@   records eff.condfail = old(eff.condfail) + ite(err != nil, 1, 0)

// The DAG-level environment handed to every step (C11): one KEY=value text per entry, in order.
//@ fn (Env).String(e) (r)
//@   props C11
//@   ensures [C11 entry_is_key_equals_value] r == e.Key + "=" + e.Value
//@ fn (Envs).All(e) (r)
//@   props C11
//@   modifies heap(alloc)
//@   ensures [C11 one_text_per_entry_in_order] len(r) == len(e) && (forall i int :: 0 <= i && i < len(e) ==> r[i] == e[i].Key + "=" + e[i].Value)
//@   loop 0 invariant len(envs) == idx + 1 && (forall i int :: 0 <= i && i <= idx ==> envs[i] == e[i].Key + "=" + e[i].Value)
