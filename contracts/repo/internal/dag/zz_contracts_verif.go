//go:build verif

// Contracts for package dag (comment-only file; no executable code).

package dag

// EvalConditions evaluates step / DAG preconditions: it may spawn processes (command substitution) but does
// not touch the scheduler's state.  The ghost counter eff.condfail records a failed evaluation.
//@ fn EvalConditions(cond) (err)
//@   props C02 C04
//@   trusted
//@   modifies ghost eff.exec, ghost eff.condfail
//@   ensures err != nil ==> eff.condfail == old(eff.condfail) + 1
//@   ensures err == nil ==> eff.condfail == old(eff.condfail)

// Output variables of a run live in a sync.Map shared by all steps; the ghost triple records the last Store.
//@ ghost outvar.stores int
//@ ghost outvar.key any
//@ ghost outvar.val any

//@ fn GetContext(ctx) (c, err)
//@   props C02 C11
//@   trusted
//@   noeffect
//@ fn (Context).WithEnv(c, env) (r)
//@   props C11
//@   trusted
//@   modifies heap(alloc)
//@ fn WithDagContext(ctx, dagContext) (r)
//@   props C11
//@   trusted
//@   noeffect
//@ fn NewContext(ctx, dag, finder, requestID, logFile) (r)
//@   props C11
//@   trusted
//@   noeffect

// Loading a definition for the scheduler daemon / listing: the ghost pair records the last outcome.
//@ ghost obs.meta_calls int
//@ ghost obs.meta_err error
//@ ghost obs.meta_dag *DAG
//@ fn LoadMetadata(dag) (d, err)
//@   props C09 C19
//@   trusted
//@   modifies heap(alloc), ghost obs.meta_calls, ghost obs.meta_err, ghost obs.meta_dag
//@   ensures obs.meta_calls == old(obs.meta_calls) + 1 && obs.meta_err == err && obs.meta_dag == d
//@   ensures err == nil ==> d != nil

//@ fn (*DAG).SockAddr(d) (r)
//@   props C16
//@   trusted
//@   pure
