//go:build verif

// Contracts for package dag (comment-only file; no executable code).

package dag

// EvalConditions evaluates step / DAG preconditions: it may spawn processes (command substitution) but does
// not touch the scheduler's state.  The ghost counter eff.condfail records a failed evaluation.
//@ fn EvalConditions(cond) (err)
//@   props C02 C04
//@   trusted
//@   modifies ghost eff.exec, ghost eff.condfail
//@   ensures err != nil ==> eff.condfail == old(eff.condfail) + 1
//@   ensures err == nil ==> eff.condfail == old(eff.condfail)
