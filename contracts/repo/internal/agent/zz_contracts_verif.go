//go:build verif

// Contracts for package agent (comment-only file; no executable code).

package agent

// What Run observed on its way: the outcome of building the graph, of the DAG-level preconditions and of the
// already-running probe.  The probe counter makes "in this call" expressible.
//@ ghost obs.agent_setup_err error
//@ ghost obs.precond_err error
//@ ghost probe.count int
//@ ghost probe.ok bool

//@ fn newReporter(sender, lg) (r)
//@   props C03 C04 C08 C14 C16
//@   trusted
//@   modifies heap(alloc)
//@   nonnilresult
//@ fn (*reporter).report(r, status, err)
//@   props C03 C04 C08 C14 C16
//@   trusted
//@   noeffect
//@ fn (*reporter).send(r, workflow, status, err) (e)
//@   props C03 C04 C08 C14 C16
//@   trusted
//@   noeffect
//@ fn (*reporter).reportStep(r, workflow, status, node) (e)
//@   props C03 C04 C08 C14 C16
//@   trusted
//@   noeffect

// The status the agent reports and records: the scheduler's outcome (shown as running from the moment the graph
// has started), the request id of this run, and one faithful record per node.
//@ fn (*Agent).Status(a) (st)
//@   props C03 C04 C08 C14 C16
//@   requires a.scheduler != nil && a.graph != nil && a.dag != nil && nodes_wf(a.graph)
//@   modifies heap(alloc), ghost obs.nodedata_len, ghost chk.fresh
//@   ensures st != nil && !wasAllocated(st)
//@   ensures [C08 reported_outcome_is_the_scheduler_outcome] st.Status ==
//@        ite(outcome(a.scheduler, a.graph) == scheduler.StatusNone && a.graph.startedAt != 0, scheduler.StatusRunning, outcome(a.scheduler, a.graph))
//@   ensures [C08 reported_run_is_this_run] st.RequestID == a.requestID && st.Name == a.dag.Name && st.Log == a.logFile
//@   ensures [C08 node_table_is_the_graph_state] len(a.graph.nodes) != 0 ==> (len(st.Nodes) == len(a.graph.nodes) &&
//@        (forall i int :: 0 <= i && i < len(a.graph.nodes) ==> (st.Nodes[i] != nil &&
//@            st.Nodes[i].Status == a.graph.nodes[i].data.State.Status && st.Nodes[i].RetryCount == a.graph.nodes[i].data.State.RetryCount &&
//@            st.Nodes[i].DoneCount == a.graph.nodes[i].data.State.DoneCount && st.Nodes[i].Log == a.graph.nodes[i].data.State.Log)))

//@ fn (*Agent).newScheduler(a) (sc)
//@   props C03 C15
//@   requires a.dag != nil
//@   modifies heap(alloc)
//@   ensures [C03 dry_flag_reaches_the_scheduler] sc != nil && sc.dry == a.dry
//@   ensures [C15 limit_reaches_the_scheduler] sc.maxActiveRuns == a.dag.MaxActiveRuns
//@   ensures sc.canceled == 0 && sc.timeout == a.dag.Timeout && !wasAllocated(sc)

//@ fn New(requestID, workflow, lg, logDir, logFile, cli, dataStore, opts) (a)
//@   props C03 C10 C16
//@   modifies heap(alloc)
//@   ensures a != nil && !wasAllocated(a) && a.requestID == requestID && a.dag == workflow && a.dry == opts.Dry && a.retryTarget == opts.RetryTarget &&
//@        a.logger == lg && a.client == cli && a.dataStore == dataStore && a.logDir == logDir && a.logFile == logFile

// Retry (C10): the graph of a retry is built from the recorded node table of the run being retried — one scheduler
// node per record, in order, with the recorded step and state — and from nothing else (not from the DAG file).
//@ pred retry_target_ok(a *Agent) = a.retryTarget != nil ==>
//@      (a.logger != nil && (forall i int :: 0 <= i && i < len(a.retryTarget.Nodes) ==> a.retryTarget.Nodes[i] != nil))
//@ fn (*Agent).setupGraphForRetry(a) (err)
//@   props C10 C14
//@   requires a.retryTarget != nil && retry_target_ok(a) && scheduler.nextNodeID > 0
//@   modifies a.graph, heap(alloc), scheduler.nextNodeID, ghost obs.cycle, ghost obs.cycle_calls, ghost eff.env, ghost env.key, ghost env.val,
//@            ghost outvar.stores, ghost outvar.key, ghost outvar.val, ghost rerun, heap(scheduler.Node)
//@   ensures [graph_nodes_exist] err == nil ==> (a.graph != nil && nodes_wf(a.graph))
//@   ensures [graph_edges_point_to_nodes] err == nil ==> graph_wf(a.graph)
//@   ensures [graph_nodes_are_indexed] err == nil ==> (forall i int :: 0 <= i && i < len(a.graph.nodes) ==> has(a.graph.dict, a.graph.nodes[i].id))
//@   ensures [C10 retry_graph_is_the_recorded_node_table] err == nil ==> (len(a.graph.nodes) == len(a.retryTarget.Nodes) &&
//@        (forall i int :: 0 <= i && i < len(a.retryTarget.Nodes) ==>
//@           (a.graph.nodes[i].data.Step.Name == a.retryTarget.Nodes[i].Step.Name &&
//@            a.graph.nodes[i].data.Step.Command == a.retryTarget.Nodes[i].Step.Command &&
//@            a.graph.nodes[i].data.Step.CmdWithArgs == a.retryTarget.Nodes[i].Step.CmdWithArgs &&
//@            a.graph.nodes[i].data.Step.Args == a.retryTarget.Nodes[i].Step.Args &&
//@            a.graph.nodes[i].data.Step.Script == a.retryTarget.Nodes[i].Step.Script &&
//@            a.graph.nodes[i].data.Step.Depends == a.retryTarget.Nodes[i].Step.Depends)))
//@   ensures [C10 finished_steps_keep_their_recorded_result] err == nil ==> (forall i int :: 0 <= i && i < len(a.retryTarget.Nodes) ==>
//@        (!rerun[a.graph.nodes[i].id] ==> (a.graph.nodes[i].data.State.Status == a.retryTarget.Nodes[i].Status &&
//@            a.graph.nodes[i].data.State.RetryCount == a.retryTarget.Nodes[i].RetryCount && a.graph.nodes[i].data.State.Log == a.retryTarget.Nodes[i].Log)))
//@   ensures [C10 unfinished_steps_and_their_descendants_are_reset] err == nil ==> (forall k int :: has(a.graph.dict, k) && rerun[k] ==>
//@        (a.graph.dict[k].data.State.Status == scheduler.NodeStatusNone &&
//@         (forall j int :: 0 <= j && j < len(a.graph.from[k]) ==> rerun[a.graph.from[k][j]])))
//@   ensures [C10 nothing_finished_is_rerun_without_cause] err == nil ==> (forall i int :: 0 <= i && i < len(a.retryTarget.Nodes) && rerun[a.graph.nodes[i].id] ==>
//@        (needs_rerun(a.retryTarget.Nodes[i].Status) ||
//@         (exists p int, j int :: has(a.graph.dict, p) && rerun[p] && 0 <= j && j < len(a.graph.from[p]) && a.graph.from[p][j] == a.graph.nodes[i].id)))
//@   assert before dag/scheduler.NewExecutionGraphForRetry [C10 retry_graph_is_built_from_the_recorded_nodes]
//@        len(arg1) == len(a.retryTarget.Nodes) && (forall i int :: 0 <= i && i < len(arg1) ==>
//@           (arg1[i] != nil && arg1[i].data.Step == a.retryTarget.Nodes[i].Step && arg1[i].data.State.Status == a.retryTarget.Nodes[i].Status))
//@   loop 0 modifies heap(alloc)
//@   loop 0 invariant len(nodes) == idx + 1
//@   loop 0 invariant forall i int :: 0 <= i && i <= idx ==>
//@        (nodes[i] != nil && allocated(nodes[i]) && !wasAllocated(nodes[i]) && nodes[i].id == 0 && nodes[i].data.Step == a.retryTarget.Nodes[i].Step &&
//@         nodes[i].data.State.Status == a.retryTarget.Nodes[i].Status && nodes[i].data.State.RetryCount == a.retryTarget.Nodes[i].RetryCount &&
//@         nodes[i].data.State.Log == a.retryTarget.Nodes[i].Log)
//@   loop 0 invariant forall i int, j int :: 0 <= i && i < j && j <= idx ==> nodes[i] != nodes[j]

//@ fn (*Agent).setupGraph(a) (err)
//@   props C14 C10
//@   requires a.dag != nil && scheduler.nextNodeID > 0 && retry_target_ok(a)
//@   modifies a.graph, heap(alloc), scheduler.nextNodeID, ghost obs.cycle, ghost obs.cycle_calls, ghost eff.env, ghost env.key, ghost env.val,
//@            ghost outvar.stores, ghost outvar.key, ghost outvar.val, ghost rerun, heap(scheduler.Node)
//@   ensures [C14 accepted_only_after_cycle_check] old(a.retryTarget) == nil && err == nil ==> (obs.cycle_calls == old(obs.cycle_calls) + 1 && !obs.cycle)
//@   ensures [graph_nodes_exist] err == nil ==> (a.graph != nil && nodes_wf(a.graph))
//@   ensures [graph_edges_point_to_nodes] err == nil ==> graph_wf(a.graph)
//@   ensures [graph_nodes_are_indexed] err == nil ==> (forall i int :: 0 <= i && i < len(a.graph.nodes) ==> has(a.graph.dict, a.graph.nodes[i].id))

//@ pred graph_ok(g *scheduler.ExecutionGraph) = nodes_wf(g) && graph_wf(g) &&
//@      (forall i int :: 0 <= i && i < len(g.nodes) ==> has(g.dict, g.nodes[i].id))

//@ fn (*Agent).setup(a) (err)
//@   props C03 C04 C14 C16
//@   requires a.dag != nil && scheduler.nextNodeID > 0 && retry_target_ok(a)
//@   modifies a.scheduler, a.reporter, a.graph, heap(alloc), scheduler.nextNodeID, ghost obs.cycle, ghost obs.cycle_calls, ghost eff.env, ghost env.key, ghost env.val,
//@            ghost outvar.stores, ghost outvar.key, ghost outvar.val, ghost rerun, heap(scheduler.Node)
//@   records obs.agent_setup_err = err
//@   ensures [C14 accepted_only_after_cycle_check] old(a.retryTarget) == nil && err == nil ==> (obs.cycle_calls == old(obs.cycle_calls) + 1 && !obs.cycle)
//@   ensures [C03 scheduler_inherits_dry_flag] err == nil ==> (a.scheduler != nil && a.scheduler.dry == a.dry && a.scheduler.canceled == 0)
//@   ensures err == nil ==> (a.graph != nil && a.reporter != nil && graph_ok(a.graph))

// DAG-level preconditions: an unmet condition cancels the scheduler and is reported; nothing else happens.
//@ fn (*Agent).checkPreconditions(a) (err)
//@   props C04
//@   requires a.dag != nil && a.scheduler != nil && a.graph != nil && nodes_wf(a.graph)
//@   modifies a.scheduler.canceled, heap(scheduler.Node.data.State.Status), ghost eff.exec, ghost eff.condfail
//@   records obs.precond_err = err
//@   ensures [C04 unmet_precondition_is_an_error] eff.condfail != old(eff.condfail) ==> err != nil
//@   ensures [C04 met_preconditions_pass] eff.condfail == old(eff.condfail) ==> (err == nil && a.scheduler.canceled == old(a.scheduler.canceled))
//@   ensures [C04 unmet_precondition_cancels_the_run] err != nil ==> a.scheduler.canceled == 1

// The already-running probe: anything but "not running" refuses the start.
//@ fn (*Agent).checkIsAlreadyRunning(a) (err)
//@   props C16
//@   requires a.client != nil && a.dag != nil
//@   modifies heap(alloc), ghost obs.cur_err, ghost obs.cur
//@   records probe.count = old(probe.count) + 1
//@   records probe.ok = (err == nil)
//@   ensures [C16 start_allowed_only_when_not_running] err == nil <==> (obs.cur_err == nil && obs.cur.Status == scheduler.StatusNone)

//@ fn (*Agent).setupDatabase(a) (err)
//@   props C03 C08 C16
//@   requires a.dataStore != nil && a.dag != nil
//@   modifies a.historyStore, ghost eff.hist, ghost hist.opens, ghost hist.removeolds
//@   ensures [C08 history_opened_for_this_run] hist.opens == old(hist.opens) + 1 && a.historyStore != nil

//@ fn (*Agent).setupSocketServer(a) (err)
//@   props C03 C16
//@   assert before sock.NewServer [C16 a_run_listens_on_the_socket_of_its_dag_file] arg0 == sock_addr(a.dag.Location)
//@   requires a.dag != nil
//@   modifies a.socketServer, heap(alloc)
//@   ensures err == nil ==> a.socketServer != nil

// The goroutines Run starts: the socket server, the per-step status recorder and the delayed first status write.
// They act concurrently with Run; their effects are attributed to the spawn.
//@ fn (*Agent).Run$2()
//@   props C03 C04 C08 C14 C16
//@   trusted
//@   spawn modifies ghost eff.sock
//@ fn (*Agent).Run$4()
//@   props C03 C04 C08 C14 C16
//@   trusted
//@   spawn modifies ghost eff.hist
//@ fn (*Agent).Run$5()
//@   props C03 C04 C08 C14 C16
//@   trusted
//@   spawn modifies ghost eff.hist
//@ fn (*Agent).dryRun$2()
//@   props C03
//@   trusted

//@ fn (*Agent).dryRun(a) (err)
//@   props C03
//@   requires a.dag != nil && a.dataStore != nil && a.scheduler != nil && a.graph != nil && a.reporter != nil && graph_ok(a.graph)
//@   modifies *
//@   expect calls (*dag/scheduler.Scheduler).Schedule >= 1
//@   ensures [C03 dry_run_records_nothing] eff.hist == old(eff.hist) && eff.sock == old(eff.sock) && hist.opens == old(hist.opens) && hist.writes == old(hist.writes)
//@   ensures probe.count == old(probe.count) && obs.agent_setup_err == old(obs.agent_setup_err) && obs.precond_err == old(obs.precond_err) &&
//@        obs.cycle == old(obs.cycle) && obs.cycle_calls == old(obs.cycle_calls)

//@ fn (*Agent).Run(a, ctx) (err)
//@   props C03 C04 C08 C14 C16
//@   requires a.dag != nil && a.client != nil && a.dataStore != nil && scheduler.nextNodeID > 0 && retry_target_ok(a)
//@   modifies *
//@   expect calls (*dag/scheduler.Scheduler).Schedule >= 1
//@   expect calls (*Agent).checkIsAlreadyRunning >= 1
//@   ensures [C14 refused_graph_runs_and_records_nothing] obs.agent_setup_err != nil ==>
//@        (err != nil && eff.sched == old(eff.sched) && eff.hist == old(eff.hist) && eff.sock == old(eff.sock) && eff.exec == old(eff.exec) && eff.condfail == old(eff.condfail))
//@   ensures [C14 accepted_only_after_cycle_check] old(a.retryTarget) == nil && eff.sched != old(eff.sched) ==> (obs.cycle_calls == old(obs.cycle_calls) + 1 && !obs.cycle)
//@   ensures [C04 unmet_dag_preconditions_run_nothing] obs.agent_setup_err == nil && obs.precond_err != nil ==>
//@        (err != nil && eff.sched == old(eff.sched) && eff.hist == old(eff.hist) && eff.sock == old(eff.sock))
//@   ensures [C03 dry_run_records_nothing] old(a.dry) ==> (eff.hist == old(eff.hist) && eff.sock == old(eff.sock))
//@   ensures [C16 refused_start_changes_nothing] probe.count == old(probe.count) + 1 && !probe.ok ==>
//@        (err != nil && eff.sched == old(eff.sched) && eff.hist == old(eff.hist) && eff.sock == old(eff.sock))
//@   ensures [C16 no_real_run_without_the_probe] old(!a.dry) && eff.sched != old(eff.sched) ==> (probe.count == old(probe.count) + 1 && probe.ok)
//@   assert before (*Agent).setupDatabase [C16 probe_precedes_history] probe.count == old(probe.count) + 1 && probe.ok
//@   assert before (persistence.HistoryStore).Write [C16 probe_precedes_recording] probe.count == old(probe.count) + 1 && probe.ok
//@   assert before (*Agent).setupSocketServer [C16 probe_precedes_socket] probe.count == old(probe.count) + 1 && probe.ok
//@   assert before (*dag/scheduler.Scheduler).Schedule [C16 probe_precedes_execution] probe.count == old(probe.count) + 1 && probe.ok
//@   assert before (*dag/scheduler.Scheduler).Schedule [C08 running_status_recorded_before_steps] hist.opens == old(hist.opens) + 1 && hist.writes > old(hist.writes)
//@   ensures [C08 final_status_recorded_after_the_last_step] eff.sched != old(eff.sched) && old(!a.dry) ==>
//@        (hist.last_write_sched == eff.sched && hist.closes == old(hist.closes) + 1 && hist.writes_at_close == hist.writes)

// Stop (C05).  Agent.signal hands the signal to the scheduler (in a goroutine that also waits for the steps to end),
// resends it every five seconds, and escalates to SIGKILL — which no step may override — once the DAG's maximum
// clean-up time has elapsed.
//@ fn (*Agent).signal$1()
//@   props C05
//@   requires a.scheduler != nil && a.graph != nil && nodes_wf(a.graph)
//@   modifies *
//@   spawn modifies ghost eff.sock
//@   expect calls (*dag/scheduler.Scheduler).Signal >= 1
//@   assert before (*dag/scheduler.Scheduler).Signal [C05 stop_signal_reaches_the_scheduler_unchanged] arg0 == a.scheduler && arg1 == a.graph && arg2 == sig && arg3 == done && arg4 == allowOverride
//@ fn (*Agent).signal(a, sig, allowOverride)
//@   props C05
//@   requires a.scheduler != nil && a.graph != nil && a.dag != nil && a.logger != nil && nodes_wf(a.graph)
//@   modifies *
//@   expect calls go (*Agent).signal$1 >= 1
//@   expect calls (*dag/scheduler.Scheduler).Signal >= 2
//@   assert before (*dag/scheduler.Scheduler).Signal#0 [C05 unresponsive_steps_are_force_killed] arg1 == a.graph && isType(arg2, "syscall.Signal") && asType(arg2, "syscall.Signal") == 9 && arg3 == nil && !arg4
//@   assert before (*dag/scheduler.Scheduler).Signal#1 [C05 stop_signal_is_repeated] arg1 == a.graph && arg2 == sig && arg3 == nil
//@   assert before time.NewTimer#0 [C05 escalation_after_the_maximum_clean_up_time] arg0 == a.dag.MaxCleanUpTime

// A stop request over the socket stops with SIGTERM and lets steps substitute their signalOnStop; an OS signal
// received by the process is forwarded as it is.
//@ fn (*Agent).HandleHTTP$1()
//@   props C05
//@   requires a.scheduler != nil && a.graph != nil && a.dag != nil && a.logger != nil && nodes_wf(a.graph)
//@   modifies *
//@   expect calls (*Agent).signal >= 1
//@   assert before (*Agent).signal [C05 stop_request_sends_sigterm_or_the_step_s_own_signal] arg0 == a && isType(arg1, "syscall.Signal") && asType(arg1, "syscall.Signal") == 15 && arg2
//@ fn (*Agent).Signal(a, sig)
//@   props C05
//@   requires a.scheduler != nil && a.graph != nil && a.dag != nil && a.logger != nil && nodes_wf(a.graph)
//@   modifies *
//@   expect calls (*Agent).signal >= 1
//@   assert before (*Agent).signal [C05 received_signal_is_forwarded] arg0 == a && arg1 == sig
