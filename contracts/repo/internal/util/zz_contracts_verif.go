//go:build verif

// Contracts for package util (comment-only file; no executable code).

package util

//@ ufunc parse_ok(s string) bool
//@ ufunc parse_time(s string) time.Time

// ParseTime: the layout grammar of time.Parse is not specified here; the result is named by two
// uninterpreted functions of the input string so that callers can be specified relative to it.
//@ fn ParseTime(val) (t, err)
//@   props C09
//@   trusted
//@   noeffect
//@   ensures (err == nil) <==> parse_ok(val)
//@   ensures err == nil ==> t == parse_time(val)

//@ fn MatchExtension(file, exts) (r)
//@   props C09
//@   ensures [C09 extension_is_one_of_the_listed] r <==> (exists i int :: 0 <= i && i < len(exts) && exts[i] == path_ext(file))
//@   loop 0 invariant forall i int :: 0 <= i && i <= idx ==> exts[i] != path_ext(file)

//@ fn LogErr(action, err)
//@   props C02
//@   noeffect

//@ fn FormatTime(val) (r)
//@   props C08
//@   trusted
//@   pure

// ---------------------------------------------------------------------------------------------
// File helpers (C07, C12): an existing file is opened for appending and never truncated.

//@ ghost obs.exists_calls int
//@ ghost obs.exists bool
//@ ghost obs.exists_path string
//@ fn FileExists(file) (r)
//@   props C07 C12 C18
//@   modifies ghost obs.exists_calls, ghost obs.exists, ghost obs.exists_path, ghost obs.stat_err, ghost obs.stat_path
//@   ensures [C07 exists_means_stat_did_not_say_missing] obs.stat_path == file && (r <==> !is_not_exist(obs.stat_err))
//@   records obs.exists_calls = old(obs.exists_calls) + 1
//@   records obs.exists = r
//@   records obs.exists_path = file

//@ fn openFile(file) (f, err)
//@   props C07 C12
//@   modifies heap(alloc), ghost fs.seq, ghost fs.appends, ghost fs.last_append_opened, ghost eff.fs
//@   ensures [C07 opened_for_append] fs.appends == old(fs.appends) + 1 && fs.last_append_opened == file && fs.seq == old(fs.seq) + 1
//@   ensures [C12 opened_file_has_the_given_name] err == nil ==> (f != nil && !wasAllocated(f) && file_name(f) == file)

//@ fn createFile(file) (f, err)
//@   props C07 C12
//@   modifies heap(alloc), ghost fs.seq, ghost fs.creates, ghost fs.last_created, ghost eff.fs
//@   ensures fs.creates == old(fs.creates) + 1 && fs.last_created == file && fs.seq == old(fs.seq) + 1
//@   ensures [C12 opened_file_has_the_given_name] err == nil ==> (f != nil && !wasAllocated(f) && file_name(f) == file)

//@ fn OpenOrCreateFile(file) (f, err)
//@   props C07 C12
//@   modifies heap(alloc), ghost fs.seq, ghost fs.appends, ghost fs.last_append_opened, ghost fs.creates, ghost fs.last_created, ghost eff.fs,
//@            ghost obs.exists_calls, ghost obs.exists, ghost obs.exists_path, ghost obs.stat_err, ghost obs.stat_path
//@   ensures [C07 existence_is_tested_first] obs.exists_calls == old(obs.exists_calls) + 1 && obs.exists_path == file
//@   ensures [C07 existing_file_is_appended_to_never_truncated] obs.exists ==>
//@        (fs.creates == old(fs.creates) && fs.appends == old(fs.appends) + 1 && fs.last_append_opened == file)
//@   ensures [C07 missing_file_is_created] !obs.exists ==> (fs.creates == old(fs.creates) + 1 && fs.last_created == file && fs.appends == old(fs.appends))
//@   ensures [C12 opened_file_has_the_given_name] err == nil ==> (f != nil && !wasAllocated(f) && file_name(f) == file)

//@ ufunc trunc_string(s string, n int) string
//@ ufunc valid_filename(s string) string
//@ fn ValidFilename(str) (r)
//@   props C12
//@   trusted
//@   noeffect
//@   ensures r == valid_filename(str)

//@ fn TruncString(val, max) (r)
//@   props C06
//@   requires max >= 0
//@   ensures [C06 truncation] r == ite(len(val) > max, substr(val, 0, max), val)

// AddYamlExtension: a name without extension gets ".yaml", ".yml" is replaced by ".yaml", anything else is kept.
//@ sfunc add_yaml(file string) string = ite(path_ext(file) == "", file + ".yaml", ite(path_ext(file) == ".yml", trim_suffix(file, ".yml") + ".yaml", file))
//@ fn AddYamlExtension(file) (r)
//@   props C18
//@   ensures [C18 definition_files_end_in_yaml] r == add_yaml(file)

//@ fn SplitCommand(cmdStr) (cmd, args)
//@   props C13
//@   trusted
//@   modifies heap(alloc)
//@ fn SplitCommandWithParse(cmdStr) (cmd, args)
//@   props C11
//@   trusted
//@   modifies heap(alloc), ghost eff.exec
