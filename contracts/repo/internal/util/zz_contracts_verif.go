//go:build verif

// Contracts for package util (comment-only file; no executable code).

package util

//@ ufunc parse_ok(s string) bool
//@ ufunc parse_time(s string) time.Time

// ParseTime: the layout grammar of time.Parse is not specified here; the result is named by two
// uninterpreted functions of the input string so that callers can be specified relative to it.
//@ fn ParseTime(val) (t, err)
//@   props C09
//@   trusted
//@   noeffect
//@   ensures (err == nil) <==> parse_ok(val)
//@   ensures err == nil ==> t == parse_time(val)

//@ fn MatchExtension(file, exts) (r)
//@   props C09
//@   trusted
//@   pure

//@ fn LogErr(action, err)
//@   props C02
//@   trusted
//@   noeffect

//@ fn FormatTime(val) (r)
//@   props C08
//@   trusted
//@   pure
