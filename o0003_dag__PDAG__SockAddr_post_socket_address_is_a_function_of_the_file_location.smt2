(get-info :reason-unknown)
