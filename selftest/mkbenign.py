#!/usr/bin/env python3
"""Regenerates /verif/selftest/benign/<name>.patch: behaviour-preserving edits of functions under contract
(old -> new text in a file of /repo).  bin/benigntest applies each to a scratch copy and requires that every
quick check still exits 0 — the must-pass counterpart of the must-fail corpus."""
import difflib, os, sys
V = os.path.dirname(os.path.abspath(__file__))
B = []
def ben(name, path, old, new, count=1):
    B.append((name, [(path, old, new, count)]))
def ben_multi(name, edits):
    B.append((name, edits))

S = 'internal/dag/scheduler/scheduler.go'
G = 'internal/dag/scheduler/graph.go'
N = 'internal/dag/scheduler/node.go'
J = 'internal/persistence/jsondb/jsondb.go'
C = 'internal/client/client.go'
CR = 'internal/scheduler/scheduler.go'
T = 'internal/frontend/middleware/token_auth.go'

# 1. an extra log line in the scheduling loop
ben('extra_log_line_in_schedule', S, """	g.Start()
	defer g.Finish()
""", """	g.Start()
	defer g.Finish()
	sc.logger.Info("Scheduling started")
""")
# 2. two independent statements exchanged
ben('independent_statements_exchanged', S, """			wg.Add(1)

			sc.logger.Info("Step execution started", "step", node.data.Step.Name)
""", """			sc.logger.Info("Step execution started", "step", node.data.Step.Name)
			wg.Add(1)
""")
# 3. a local renamed inside the worker
ben('worker_local_renamed', S, "setupSucceed", "setupOK", count=3)
# 4. empty switch cases removed
ben('empty_cases_removed', S, """	case StatusCancel:
		handlers = append(handlers, dag.HandlerOnCancel)
	case StatusNone:
	case StatusRunning:
	}""", """	case StatusCancel:
		handlers = append(handlers, dag.HandlerOnCancel)
	}""")
# 5. comment block inserted at the top of the file (every line number below it shifts)
ben('line_numbers_shift', S, """package scheduler
""", """package scheduler

// This comment moves every declaration of the file by a few lines.
//
// Nothing else changes.
""")
# 6. runningCount with a renamed counter
ben('counter_renamed', S, """	count := 0
	for _, node := range g.Nodes() {
		if node.State().Status == NodeStatusRunning {
			count++
		}
	}
	return count""", """	running := 0
	for _, node := range g.Nodes() {
		if node.State().Status == NodeStatusRunning {
			running++
		}
	}
	return running""")
# 7. isReady: the status read into a temporary first
ben('status_read_into_temporary', S, """		n := g.node(dep)
		switch n.State().Status {""", """		n := g.node(dep)
		depStatus := n.State().Status
		switch depStatus {""")
# 8. Status(): if-chain turned into a switch
ben('status_if_chain_as_switch', S, """	if !g.IsStarted() {
		return StatusNone
	}
	if g.IsRunning() {
		return StatusRunning
	}
	if sc.isError() {
		return StatusError
	}
	return StatusSuccess""", """	switch {
	case !g.IsStarted():
		return StatusNone
	case g.IsRunning():
		return StatusRunning
	case sc.isError():
		return StatusError
	default:
		return StatusSuccess
	}""")
# 9. addEdge with temporaries
ben('addedge_with_temporaries', G, """	g.from[from.id] = append(g.from[from.id], to.id)
	g.to[to.id] = append(g.to[to.id], from.id)""", """	src, dst := from.id, to.id
	g.from[src] = append(g.from[src], dst)
	g.to[dst] = append(g.to[dst], src)""")
# 10. hasCycle queue renamed (function is trusted + bounded stand-in)
ben('cycle_queue_renamed', G, """	var q []int
	for _, node := range g.nodes {
		if inDegrees[node.id] != 0 {
			continue
		}
		q = append(q, node.id)
	}

	for len(q) > 0 {
		var f = q[0]
		q = q[1:]
""", """	var queue []int
	for _, node := range g.nodes {
		if inDegrees[node.id] != 0 {
			continue
		}
		queue = append(queue, node.id)
	}
	q := queue

	for len(q) > 0 {
		var f = q[0]
		q = q[1:]
""")
# 11. RemoveOld: negated condition with continue
ben('retention_loop_restructured', J, """		if info.ModTime().Before(ot) {
			if err := os.Remove(m); err != nil {
				lastErr = err
			}
		}""", """		if !info.ModTime().Before(ot) {
			continue
		}
		if err := os.Remove(m); err != nil {
			lastErr = err
		}""")
# 12. GetLatestStatus: local renamed
ben('client_local_renamed', C, """	currStatus, _ := e.currentStatus(workflow)
	if currStatus != nil {
		return currStatus, nil
	}""", """	live, _ := e.currentStatus(workflow)
	if live != nil {
		return live, nil
	}""")
# 13. cron run: else-if chain turned into a switch, local renamed
ben('cron_local_renamed', CR, """		t := e.Next
		if t.IsZero() {""", """		due := e.Next
		t := due
		if t.IsZero() {""")
# 14. token auth: two tests merged into one condition
ben('token_tests_merged', T, """			if len(authHeader) < 2 {
				tokenAuthFailed(w, realm)
				return
			}

			bearer := authHeader[1]
			if bearer == "" {
				tokenAuthFailed(w, realm)
				return
			}
""", """			if len(authHeader) < 2 || authHeader[1] == "" {
				tokenAuthFailed(w, realm)
				return
			}
			bearer := authHeader[1]
""")
# 15. a new, unused method and a new struct field
ben_multi('new_method_and_field', [(N, """// Node is a node in a DAG. It executes a command.
type Node struct {""", """// Describe returns a short description of the node (not used by the engine).
func (n *Node) Describe() string {
	return "node " + n.data.Step.Name
}

// Node is a node in a DAG. It executes a command.
type Node struct {
	note string""", 1)])
# 16. var declaration style
ben('waitgroup_declared_differently', S, "	var wg = sync.WaitGroup{}\n", "	var wg sync.WaitGroup\n")
# 17. worker: error branch reordered (the two cancel branches are independent of the retry test only through
#     their order, so exchange two cases whose guards exclude each other: timeout and canceled stay first)
ben('log_call_before_status_change', S, """							sc.logger.Info(
								"Step execution deadline exceeded",
								"step", node.data.Step.Name,
								"error", execErr,
							)
							node.setStatus(NodeStatusCancel)
							sc.setLastError(execErr)""", """							node.setStatus(NodeStatusCancel)
							sc.setLastError(execErr)
							sc.logger.Info(
								"Step execution deadline exceeded",
								"step", node.data.Step.Name,
								"error", execErr,
							)""")

A = 'internal/agent/agent.go'
# 18. a debug line that calls a library function nobody gave a contract to
ben('library_call_in_log_line', J, """	if dagFile == "" {
		return "", errDAGFileEmpty
	}""", """	if dagFile == "" {
		return "", errDAGFileEmpty
	}
	log.Printf("new history file for %s", strings.ToUpper(requestID))""")
# 19. a local renamed and another local added in the same function
ben_multi('local_renamed_and_local_added', [(J, """	ot := time.Now().AddDate(0, 0, -retentionDays)
	var lastErr error
	for _, m := range matches {
		info, err := os.Stat(m)
		if err != nil {
			continue
		}
		if info.ModTime().Before(ot) {""", """	days := -retentionDays
	cutoff := time.Now().AddDate(0, 0, days)
	var lastErr error
	for _, m := range matches {
		info, err := os.Stat(m)
		if err != nil {
			continue
		}
		if info.ModTime().Before(cutoff) {""", 1)])
# 20. error test inverted
ben('error_test_inverted', C, """	if err != nil {
		return model.NewStatusDefault(workflow), err
	}
	status.CorrectRunningStatus()
	return status, nil""", """	if err == nil {
		status.CorrectRunningStatus()
		return status, nil
	}
	return model.NewStatusDefault(workflow), err""")
# 21. switch cases in another order
ben('switch_cases_reordered', S, """		case NodeStatusCancel:
			ready = false
			node.setStatus(NodeStatusCancel)
		case NodeStatusNone, NodeStatusRunning:
			ready = false
		default:""", """		case NodeStatusNone, NodeStatusRunning:
			ready = false
		case NodeStatusCancel:
			ready = false
			node.setStatus(NodeStatusCancel)
		default:""")
# 22. explicit unlock instead of defer
ben('explicit_unlock', N, """func (n *Node) setStatus(status NodeStatus) {
	n.mu.Lock()
	defer n.mu.Unlock()
	n.data.State.Status = status
}""", """func (n *Node) setStatus(status NodeStatus) {
	n.mu.Lock()
	n.data.State.Status = status
	n.mu.Unlock()
}""")
# 23. log lines added to the stop path of the agent
ben('log_lines_in_agent_signal', A, """			a.logger.Info("Sending KILL signal to running child processes.")
			a.scheduler.Signal(a.graph, syscall.SIGKILL, nil, false)
			return""", """			a.logger.Info("Sending KILL signal to running child processes.")
			a.scheduler.Signal(a.graph, syscall.SIGKILL, nil, false)
			a.logger.Info("KILL signal sent")
			return""")

# ---- helpers split off functions under contract (the new function has no contract)
# 24. the precondition test of the scheduling loop becomes a method
ben_multi('precondition_test_extracted', [(S, """			if len(node.data.Step.Preconditions) > 0 {
				sc.logger.Infof("Checking pre conditions for \\"%s\\"", node.data.Step.Name)
				if err := dag.EvalConditions(node.data.Step.Preconditions); err != nil {
					sc.logger.Infof("Pre conditions failed for \\"%s\\"", node.data.Step.Name)
					node.setStatus(NodeStatusSkipped)
					node.SetError(err)
					continue NodesIteration
				}
			}
""", """			if !sc.preconditionsHold(node) {
				continue NodesIteration
			}
""", 1), (S, """// Schedule runs the graph of steps.
""", """// preconditionsHold evaluates the preconditions of a step; a step whose
// preconditions fail is marked skipped.
func (sc *Scheduler) preconditionsHold(node *Node) bool {
	if len(node.data.Step.Preconditions) == 0 {
		return true
	}
	sc.logger.Infof("Checking pre conditions for \\"%s\\"", node.data.Step.Name)
	if err := dag.EvalConditions(node.data.Step.Preconditions); err != nil {
		sc.logger.Infof("Pre conditions failed for \\"%s\\"", node.data.Step.Name)
		node.setStatus(NodeStatusSkipped)
		node.SetError(err)
		return false
	}
	return true
}

// Schedule runs the graph of steps.
""", 1)])
# 25. isReady: the two marking statements of the failed-dependency case become a function
ben_multi('blocking_mark_extracted', [(S, """			if !n.data.Step.ContinueOn.Failure {
				ready = false
				node.setStatus(NodeStatusCancel)
				node.SetError(errUpstreamFailed)
			}""", """			if !n.data.Step.ContinueOn.Failure {
				ready = false
				markBlocked(node, NodeStatusCancel, errUpstreamFailed)
			}""", 1), (S, """func isReady(g *ExecutionGraph, node *Node) bool {""", """func markBlocked(node *Node, status NodeStatus, reason error) {
	node.setStatus(status)
	node.SetError(reason)
}

func isReady(g *ExecutionGraph, node *Node) bool {""", 1)])
# 26. retention: the removal of one old file becomes a function
ben_multi('removal_extracted', [(J, """		if info.ModTime().Before(ot) {
			if err := os.Remove(m); err != nil {
				lastErr = err
			}
		}""", """		if err := removeIfOlder(m, info, ot); err != nil {
			lastErr = err
		}""", 1), (J, """func (s *JSONDB) Compact(original string) error {""", """func removeIfOlder(file string, info os.FileInfo, limit time.Time) error {
	if info.ModTime().Before(limit) {
		return os.Remove(file)
	}
	return nil
}

func (s *JSONDB) Compact(original string) error {""", 1)])
# 27. client: the fallback on a missing history becomes a function
ben_multi('fallback_extracted', [(C, """	if errors.Is(err, persistence.ErrNoStatusDataToday) ||
		errors.Is(err, persistence.ErrNoStatusData) {
		return model.NewStatusDefault(workflow), nil
	}""", """	if noStatusData(err) {
		return model.NewStatusDefault(workflow), nil
	}""", 1), (C, """func (e *client) GetLatestStatus(""", """func noStatusData(err error) bool {
	return errors.Is(err, persistence.ErrNoStatusDataToday) ||
		errors.Is(err, persistence.ErrNoStatusData)
}

func (e *client) GetLatestStatus(""", 1)])

# ---- functions under contract renamed (call sites included)
ben('function_renamed_running_count', S, "runningCount(g", "countRunning(g", count=2)
ben_multi('function_renamed_is_ready', [(S, "isReady(g", "dependenciesAllow(g", 2)])
ben('function_with_closure_renamed', 'internal/dag/executor/command.go', "newCommand", "buildCommand", count=3)
ben('method_renamed_setup_retry', G, "setupRetry()", "markForRetry()", count=2)

def main():
    repo = sys.argv[1] if len(sys.argv) > 1 else '/repo'
    out = os.path.join(V, 'benign')
    os.makedirs(out, exist_ok=True)
    for f in os.listdir(out):
        if f.endswith('.patch'):
            os.remove(os.path.join(out, f))
    bad = 0
    for name, edits in B:
        diff = ''
        files = {}
        for path, old, new, count in edits:
            if path not in files:
                files[path] = open(os.path.join(repo, path)).read()
            src = files[path]
            if src.count(old) != count:
                print('MISMATCH %s: %r occurs %d times, expected %d' % (name, old[:40], src.count(old), count))
                bad += 1
                continue
            files[path] = src.replace(old, new)
        for path, dst in files.items():
            src = open(os.path.join(repo, path)).read()
            diff += ''.join(difflib.unified_diff(src.splitlines(True), dst.splitlines(True), 'a/' + path, 'b/' + path))
        open(os.path.join(out, name + '.patch'), 'w').write(diff)
    print('%d benign patches, %d mismatches' % (len(B), bad))
    sys.exit(1 if bad else 0)
main()
