#!/usr/bin/env python3
"""Regenerates /verif/selftest/<id>/<name>.patch from the declarative mutant list below (old -> new text in a
file of /repo).  Run after /repo changes (e.g. a fix: commit) so that the patches still apply."""
import difflib, os, sys
V = os.path.dirname(os.path.abspath(__file__))
M = []
def mut(pid, name, path, old, new, count=1):
    M.append((pid, name, path, old, new, count))

S = 'internal/dag/scheduler/scheduler.go'
G = 'internal/dag/scheduler/graph.go'
N = 'internal/dag/scheduler/node.go'

# ---- C01
mut('C01', 'failed_dep_keeps_ready', S, """			if !n.data.Step.ContinueOn.Failure {
				ready = false
				node.setStatus(NodeStatusCancel)""", """			if !n.data.Step.ContinueOn.Failure {
				node.setStatus(NodeStatusCancel)""")
mut('C01', 'running_dep_like_finished', S, """		case NodeStatusNone, NodeStatusRunning:
			ready = false""", """		case NodeStatusNone:
			ready = false
		case NodeStatusRunning:
			continue""")
# ---- C02
mut('C02', 'skipped_blocker_labels_canceled', S, """				node.setStatus(NodeStatusSkipped)
				node.SetError(errUpstreamSkipped)""", """				node.setStatus(NodeStatusCancel)
				node.SetError(errUpstreamSkipped)""")
mut('C02', 'blocked_not_marked', S, """		case NodeStatusCancel:
			ready = false
			node.setStatus(NodeStatusCancel)""", """		case NodeStatusCancel:
			ready = false""")
mut('C02', 'isfinished_ignores_none', S, """		if node.State().Status == NodeStatusRunning ||
			node.State().Status == NodeStatusNone {
			return false""", """		if node.State().Status == NodeStatusRunning {
			return false""")
# ---- C04
mut('C04', 'status_error_test_dropped', S, """	if sc.isError() {
		return StatusError
	}
	return StatusSuccess""", """	return StatusSuccess""")
mut('C04', 'status_order_swapped', S, """	if g.IsRunning() {
		return StatusRunning
	}
	if sc.isError() {
		return StatusError
	}""", """	if sc.isError() {
		return StatusError
	}
	if g.IsRunning() {
		return StatusRunning
	}""")
mut('C04', 'issucceed_accepts_cancel', S, """		if nodeStatus == NodeStatusSuccess || nodeStatus == NodeStatusSkipped {
			continue""", """		if nodeStatus == NodeStatusSuccess || nodeStatus == NodeStatusSkipped || nodeStatus == NodeStatusCancel {
			continue""")
# ---- C15
mut('C15', 'runningcount_wrong_status', S, """		if node.State().Status == NodeStatusRunning {
			count++""", """		if node.State().Status == NodeStatusNone {
			count++""")

# ---- Schedule (role L)
mut('C01', 'launch_without_none_check', S, """			if node.State().Status != NodeStatusNone || !isReady(g, node) {""", """			if !isReady(g, node) {""")
mut('C01', 'launch_without_ready_check', S, """			if node.State().Status != NodeStatusNone || !isReady(g, node) {""", """			if node.State().Status != NodeStatusNone {""")
mut('C02', 'precondition_failure_continues_to_launch', S, """					node.setStatus(NodeStatusSkipped)
					node.SetError(err)
					continue NodesIteration""", """					node.setStatus(NodeStatusSkipped)
					node.SetError(err)""")
mut('C03', 'status_flip_moved_into_goroutine', S, """			node.setStatus(NodeStatusRunning)
			go func(node *Node) {
				defer func() {""", """			go func(node *Node) {
				node.setStatus(NodeStatusRunning)
				defer func() {""")
mut('C04', 'onexit_before_outcome_handler', S, """	var handlers []dag.HandlerType
	switch sc.Status(g) {""", """	var handlers []dag.HandlerType
	handlers = append(handlers, dag.HandlerOnExit)
	switch sc.Status(g) {""")
mut('C04', 'onfailure_on_cancel', S, """	case StatusCancel:
		handlers = append(handlers, dag.HandlerOnCancel)""", """	case StatusCancel:
		handlers = append(handlers, dag.HandlerOnFailure)""")
mut('C04', 'handlers_before_wait', S, """	wg.Wait()

	var handlers []dag.HandlerType""", """	var handlers []dag.HandlerType""")
mut('C05', 'cancel_check_before_launch_removed', S, """			if sc.isCanceled() {
				break NodesIteration
			}
""", "")
mut('C15', 'gate_off_by_one', S, """sc.runningCount(g) >= sc.maxActiveRuns""", """sc.runningCount(g) > sc.maxActiveRuns""")
mut('C15', 'gate_removed', S, """			if sc.maxActiveRuns > 0 && sc.runningCount(g) >= sc.maxActiveRuns {
				continue NodesIteration
			}
""", "")
mut('C11', 'handler_output_handover_removed', S, """			n.mu.Lock()
			n.data.Step.OutputVariables = g.outputVariables
			n.mu.Unlock()
""", "")

# ---- C14 graph admission
mut('C14', 'hascycle_degree_gt_one', G, """		if degree > 0 {
			return true""", """		if degree > 1 {
			return true""")
mut('C14', 'setup_ignores_unknown_dependency', G, """			depStep, err := g.findStep(dep)
			if err != nil {
				return err
			}""", """			depStep, err := g.findStep(dep)
			if err != nil {
				continue
			}""")
mut('C14', 'addedge_direction_swapped', G, """			g.addEdge(depStep, node)""", """			g.addEdge(node, depStep)""")
mut('C14', 'findstep_matches_prefix', G, """		if n.data.Step.Name == name {
			return n, nil""", """		if len(n.data.Step.Name) >= len(name) && n.data.Step.Name[:len(name)] == name {
			return n, nil""")
mut('C14', 'cycle_check_skipped', G, """	if g.hasCycle() {
		return errCycleDetected
	}

	return nil
}

func (g *ExecutionGraph) hasCycle() bool {""", """	if len(g.nodes) > 8 && g.hasCycle() {
		return errCycleDetected
	}

	return nil
}

func (g *ExecutionGraph) hasCycle() bool {""")
mut('C14', 'addedge_only_backward', G, """	g.from[from.id] = append(g.from[from.id], to.id)
	g.to[to.id] = append(g.to[to.id], from.id)""", """	if from.id != to.id {
		g.from[from.id] = append(g.from[from.id], to.id)
	}
	g.to[to.id] = append(g.to[to.id], from.id)""")

# ---- worker W(n)
mut('C03', 'retry_guard_off_by_one', S, """node.data.Step.RetryPolicy.Limit > node.getRetryCount():""", """node.data.Step.RetryPolicy.Limit >= node.getRetryCount():""")
mut('C03', 'inc_retry_count_removed', S, """							// retry
							node.incRetryCount()
""", """							// retry
""")
mut('C03', 'execnode_ignores_dry', S, """func (sc *Scheduler) execNode(ctx context.Context, n *Node) error {
	if !sc.dry {
		return n.Execute(ctx)
	}
	return nil""", """func (sc *Scheduler) execNode(ctx context.Context, n *Node) error {
	return n.Execute(ctx)""")
mut('C03', 'retry_executes_inline_twice', S, """							time.Sleep(node.data.Step.RetryPolicy.Interval)
							node.setRetriedAt(time.Now())
							node.setStatus(NodeStatusNone)""", """							time.Sleep(node.data.Step.RetryPolicy.Interval)
							node.setRetriedAt(time.Now())
							execErr = sc.execNode(ctx, node)
							node.setStatus(NodeStatusNone)""")
mut('C02', 'worker_default_branch_writes_finished', S, """							// finish the node
							node.setStatus(NodeStatusError)
							node.setErr(execErr)""", """							// finish the node
							node.setStatus(NodeStatusSuccess)""")
mut('C02', 'worker_failure_not_recorded_in_run_error', S, """							node.setStatus(NodeStatusError)
							node.setErr(execErr)
							sc.setLastError(execErr)""", """							node.setStatus(NodeStatusError)
							node.setErr(execErr)""")
# ---- C05 (more)
AG = 'internal/agent/agent.go'
mut('C05', 'kill_only_reaches_running_steps', N, """	stopping := status == NodeStatusCancel && n.data.State.FinishedAt.IsZero()
	if (status == NodeStatusRunning || stopping) && n.cmd != nil {""", """	if status == NodeStatusRunning && n.cmd != nil {""")
mut('C05', 'signal_on_stop_always_overrides', N, """		if allowOverride && n.data.Step.SignalOnStop != "" {""", """		if n.data.Step.SignalOnStop != "" {""")
mut('C05', 'signal_on_stop_ignored', N, """		if allowOverride && n.data.Step.SignalOnStop != "" {
			sigsig = unix.SignalNum(n.data.Step.SignalOnStop)
		}""", """		_ = unix.SignalNum""")
mut('C05', 'stop_does_not_register_cancel', S, """	if !sc.isCanceled() {
		sc.setCanceled()
	}
	for _, node := range g.Nodes() {
		// for a repetitive task""", """	for _, node := range g.Nodes() {
		// for a repetitive task""")
mut('C05', 'repeating_steps_signalled_too', S, """		if !node.data.Step.RepeatPolicy.Repeat {
			node.signal(sig, allowOverride)
		}""", """		node.signal(sig, allowOverride)""")
mut('C05', 'only_first_step_signalled', S, """		if !node.data.Step.RepeatPolicy.Repeat {
			node.signal(sig, allowOverride)
		}""", """		if !node.data.Step.RepeatPolicy.Repeat {
			node.signal(sig, allowOverride)
			break
		}""")
mut('C05', 'escalation_sends_term_again', AG, """			a.scheduler.Signal(a.graph, syscall.SIGKILL, nil, false)""", """			a.scheduler.Signal(a.graph, sig, nil, false)""")
mut('C05', 'escalation_can_be_overridden', AG, """			a.scheduler.Signal(a.graph, syscall.SIGKILL, nil, false)""", """			a.scheduler.Signal(a.graph, syscall.SIGKILL, nil, true)""")
mut('C05', 'escalation_timer_is_fixed', AG, """	timeout := time.NewTimer(a.dag.MaxCleanUpTime)""", """	timeout := time.NewTimer(time.Hour)""")
mut('C05', 'stop_request_sends_kill', AG, """			a.signal(syscall.SIGTERM, true)""", """			a.signal(syscall.SIGKILL, true)""")
mut('C05', 'stop_request_ignores_signal_on_stop', AG, """			a.signal(syscall.SIGTERM, true)""", """			a.signal(syscall.SIGTERM, false)""")
mut('C05', 'worker_executes_after_stop', S, """				for setupSucceed && !sc.isCanceled() {""", """				for setupSucceed {""")
mut('C05', 'timeout_not_applied', S, """		ctx, cancel = context.WithTimeout(ctx, sc.timeout)""", """		ctx, cancel = context.WithTimeout(ctx, sc.timeout*1000)""")
mut('C05', 'canceled_run_reported_failed', S, """	if sc.isCanceled() && !sc.isSucceed(g) {
		return StatusCancel
	}""", """	if sc.isCanceled() && !sc.isSucceed(g) {
		return StatusError
	}""")
mut('C05', 'signal_reaches_only_the_leader_process', 'internal/dag/executor/command.go', """	return syscall.Kill(-e.cmd.Process.Pid, sig.(syscall.Signal))""", """	return syscall.Kill(e.cmd.Process.Pid, sig.(syscall.Signal))""")
mut('C05', 'step_shares_the_agents_process_group', 'internal/dag/executor/command.go', """		Setpgid: true,
		Pgid:    0,""", """		Setpgid: false,
		Pgid:    0,""")
mut('C11', 'outputs_prepended_to_environment', 'internal/dag/executor/command.go', """		cmd.Env = append(cmd.Env, value.(string))""", """		cmd.Env = append([]string{value.(string)}, cmd.Env...)""")
mut('C09', 'created_job_bound_to_nothing', 'internal/scheduler/job.go', """		DAG:        workflow,
		Executable: jf.Executable,""", """		Executable: jf.Executable,""")
mut('C11', 'step_variables_before_process_environment', 'internal/dag/executor/command.go', """	cmd.Env = append(cmd.Env, os.Environ()...)
	cmd.Env = append(cmd.Env, step.Variables...)""", """	cmd.Env = append(cmd.Env, step.Variables...)
	cmd.Env = append(cmd.Env, os.Environ()...)""")
mut('C11', 'dag_level_environment_dropped', 'internal/dag/executor/command.go', """	cmd.Env = append(cmd.Env, dagContext.Envs.All()...)
""", """	_ = dagContext
""")
mut('C11', 'environment_reset_before_outputs', 'internal/dag/executor/command.go', """	step.OutputVariables.Range(func(_, value any) bool {""", """	cmd.Env = cmd.Env[:0]
	step.OutputVariables.Range(func(_, value any) bool {""")
mut('C08', 'failing_step_left_running_during_stop', S, """							node.setStatus(NodeStatusCancel)
							sc.setLastError(execErr)
						case node.data.Step.RetryPolicy != nil""", """							sc.setLastError(execErr)
						case node.data.Step.RetryPolicy != nil""")
mut('C05', 'signal_done_when_only_marked_canceled', S, """		for g.IsRunning() || g.isStopping() {""", """		for g.IsRunning() {""")
mut('C05', 'stopping_ignores_unfinished_steps', N, """	return n.data.State.Status == NodeStatusCancel &&
		n.data.State.FinishedAt.IsZero() && n.cmd != nil""", """	return n.data.State.Status == NodeStatusCancel &&
		!n.data.State.FinishedAt.IsZero() && n.cmd != nil""")
mut('C17', 'basic_auth_needs_a_password', 'internal/frontend/frontend.go', """	if cfg.IsBasicAuth {""", """	if cfg.IsBasicAuth && cfg.BasicAuthPassword != "" {""")
mut('C17', 'server_forgets_the_token_setting', 'internal/frontend/server/server.go', """		authToken: params.AuthToken,
""", """""")
mut('C17', 'middleware_not_told_about_basic_auth', 'internal/frontend/server/server.go', """	if svr.basicAuth != nil {
		middlewareOptions.AuthBasic = &pkgmiddleware.AuthBasic{""", """	if svr.basicAuth != nil && svr.authToken == nil {
		middlewareOptions.AuthBasic = &pkgmiddleware.AuthBasic{""")
mut('C17', 'setup_swaps_nothing_in', 'internal/frontend/middleware/global.go', """	authToken = opts.AuthToken
""", """""")
# ---- C10
mut('C10', 'interrupted_steps_not_reset', G, """				dict[u] == NodeStatusCancel || dict[u] == NodeStatusRunning {""", """				dict[u] == NodeStatusCancel {""")
mut('C10', 'canceled_steps_not_reset', G, """			if retry[u] || dict[u] == NodeStatusError ||
				dict[u] == NodeStatusCancel || dict[u] == NodeStatusRunning {""", """			if retry[u] || dict[u] == NodeStatusError || dict[u] == NodeStatusRunning {""")
mut('C10', 'finished_steps_reset_too', G, """			if retry[u] || dict[u] == NodeStatusError ||""", """			if retry[u] || dict[u] == NodeStatusSuccess || dict[u] == NodeStatusError ||""")
mut('C10', 'downstream_not_marked', G, """				if retry[u] {
					retry[v] = true
				}
				next = append(next, v)""", """				next = append(next, v)""")
mut('C10', 'all_successors_marked', G, """				if retry[u] {
					retry[v] = true
				}""", """				retry[v] = true""")
mut('C10', 'reset_clears_wrong_node', G, """				g.dict[u].clearState()
				retry[u] = true""", """				g.nodes[0].clearState()
				retry[u] = true""")
mut('C10', 'recorded_status_table_is_blank', G, """		dict[node.id] = node.data.State.Status
		retry[node.id] = false""", """		dict[node.id] = NodeStatusNone
		retry[node.id] = false""")
mut('C10', 'successor_marked_but_not_queued', G, """				if retry[u] {
					retry[v] = true
				}
				next = append(next, v)""", """				if retry[u] {
					retry[v] = true
				}
				if len(g.to[v]) <= 1 || g.to[v][0] == u {
					next = append(next, v)
				}""")
mut('C10', 'unfinished_roots_mark_everything', G, """		retry[node.id] = false
	}""", """		retry[node.id] = node.data.State.Status == NodeStatusNone
	}""")
mut('C10', 'clear_state_keeps_status', N, """func (n *Node) clearState() {
	n.data.State = NodeState{}
}""", """func (n *Node) clearState() {
	n.data.State = NodeState{Status: n.data.State.Status}
}""")
# ---- C11
P = 'internal/dag/parser.go'
MS = 'internal/persistence/model/status.go'
mut('C11', 'positional_index_off_by_one', P, """			if err = os.Setenv(strconv.Itoa(i+1), strParam); err != nil {""", """			if err = os.Setenv(strconv.Itoa(i), strParam); err != nil {""")
mut('C11', 'named_param_exported_with_its_name_prefix', P, """			err = os.Setenv(p.name, p.value)""", """			err = os.Setenv(p.name, strParam)""")
mut('C11', 'named_param_recorded_without_name', P, """	if param.name != "" {
		return fmt.Sprintf("%s=%s", param.name, param.value)
	}
	return param.value""", """	return param.value""")
mut('C11', 'last_param_dropped', P, """		strParam := stringifyParam(p)
		ret = append(ret, strParam)""", """		strParam := stringifyParam(p)
		if i == 0 || i+1 < len(parsedParams) {
			ret = append(ret, strParam)
		}""")
mut('C11', 'recorded_params_not_quoted', MS, """		quoted = append(quoted, quoteParam(p))""", """		quoted = append(quoted, p)""")
mut('C11', 'quotes_trimmed_greedily', P, """				value = strings.TrimSuffix(strings.TrimPrefix(value, `"`), `"`)""", """				value = strings.Trim(value, `"`)""")
mut('C11', 'retry_loads_with_default_params', 'cmd/retry.go', """			workflow, err := dag.Load(cfg.BaseConfig, absoluteFilePath, status.Status.Params)""", """			workflow, err := dag.Load(cfg.BaseConfig, absoluteFilePath, "")""")
mut('C11', 'restart_loads_with_default_params', 'cmd/restart.go', """			workflow, err = dag.Load(cfg.BaseConfig, specFilePath, params)""", """			workflow, err = dag.Load(cfg.BaseConfig, specFilePath, workflow.DefaultParams)""")
mut('C11', 'start_keeps_the_quotes', 'cmd/start.go', """			workflow, err := dag.Load(cfg.BaseConfig, args[0], removeQuotes(params))""", """			workflow, err := dag.Load(cfg.BaseConfig, args[0], params)""")
mut('C11', 'load_ignores_given_params', 'internal/dag/loader.go', """		base:         base,
		parameters:   params,
		metadataOnly: false,
		noEval:       false,""", """		base:         base,
		metadataOnly: false,
		noEval:       false,""")
mut('C11', 'output_not_trimmed', N, """		ret := strings.TrimSpace(buf.String())""", """		ret := buf.String()""")
mut('C11', 'handlers_get_fresh_output_map', S, """			n.data.Step.OutputVariables = g.outputVariables""", """			n.data.Step.OutputVariables = &dag.SyncMap{}""")
mut('C11', 'restored_output_value_keeps_name_prefix', G, """				err := os.Setenv(k, v[len(key.(string))+1:])""", """				err := os.Setenv(k, v)""")
mut('C12', 'setup_no_longer_rearms_teardown', N, """	n.done = false

	// Nor has the new attempt finished""", """	// Nor has the new attempt finished""")
mut('C12', 'teardown_skips_stdout_writer', N, """	for _, w := range []*bufio.Writer{n.logWriter, n.stdoutWriter} {""", """	for _, w := range []*bufio.Writer{n.logWriter} {""")
mut('C12', 'teardown_flushes_only_when_log_file_set', N, """		if w != nil {
			if err := w.Flush(); err != nil {""", """		if w != nil && n.stderrFile != nil {
			if err := w.Flush(); err != nil {""")
mut('C12', 'teardown_disarmed_by_default', N, """	if n.done {
		return nil
	}
	n.logLock.Lock()""", """	if n.done || n.data.State.RetryCount > 0 {
		return nil
	}
	n.logLock.Lock()""")
mut('C12', 'stdout_file_replaces_log', N, """		stdout = io.MultiWriter(n.logWriter, n.stdoutWriter)""", """		stdout = n.stdoutWriter""")
mut('C12', 'stderr_not_wired_without_stderr_file', N, """	if n.stderrWriter != nil {
		cmd.SetStderr(n.stderrWriter)
	} else {
		cmd.SetStderr(stdout)
	}""", """	if n.stderrWriter != nil {
		cmd.SetStderr(n.stderrWriter)
	} else {
		cmd.SetStderr(io.Discard)
	}""")
mut('C12', 'output_capture_replaces_log', N, """		stdout = io.MultiWriter(stdout, n.outputWriter)""", """		stdout = n.outputWriter""")
mut('C12', 'log_opened_under_other_name', N, """	n.logFile, err = util.OpenOrCreateFile(n.data.State.Log)""", """	n.logFile, err = util.OpenOrCreateFile(n.data.State.Log + ".tmp")""")
mut('C12', 'stdout_writer_over_log_file', N, """		n.stdoutWriter = bufio.NewWriter(n.stdoutFile)""", """		n.stdoutWriter = bufio.NewWriter(n.logFile)""")
mut('C12', 'worker_teardown_calls_removed', S, """				defer func() {
					_ = sc.teardownNode(node)
				}()
""", "")

# ---- Agent.Run (C03 dry, C04 preconditions, C08 recording, C14 refusal, C16 probe)
A = 'internal/agent/agent.go'
mut('C16', 'probe_removed', A, """	// Check if the DAG is already running.
	if err := a.checkIsAlreadyRunning(); err != nil {
		return err
	}
""", """	// Check if the DAG is already running.
	_ = a.checkIsAlreadyRunning()
""")
mut('C16', 'probe_after_history_is_opened', A, """	// Check if the DAG is already running.
	if err := a.checkIsAlreadyRunning(); err != nil {
		return err
	}

	// Make a connection to the database.
	// It should close the connection to the history database when the DAG
	// execution is finished.
	if err := a.setupDatabase(); err != nil {
		return err
	}
""", """	// Make a connection to the database.
	// It should close the connection to the history database when the DAG
	// execution is finished.
	if err := a.setupDatabase(); err != nil {
		return err
	}
	// Check if the DAG is already running.
	if err := a.checkIsAlreadyRunning(); err != nil {
		return err
	}
""")
mut('C16', 'probe_accepts_any_status_but_running', A, """	if status.Status != scheduler.StatusNone {
		return fmt.Errorf(""", """	if status.Status == scheduler.StatusRunning {
		return fmt.Errorf(""")
mut('C03', 'dry_run_checked_after_history_is_opened', A, """	// Handle dry execution.
	if a.dry {
		return a.dryRun()
	}

	// Check if the DAG is already running.
	if err := a.checkIsAlreadyRunning(); err != nil {
		return err
	}

	// Make a connection to the database.
	// It should close the connection to the history database when the DAG
	// execution is finished.
	if err := a.setupDatabase(); err != nil {
		return err
	}
""", """	// Check if the DAG is already running.
	if err := a.checkIsAlreadyRunning(); err != nil {
		return err
	}

	// Make a connection to the database.
	// It should close the connection to the history database when the DAG
	// execution is finished.
	if err := a.setupDatabase(); err != nil {
		return err
	}

	// Handle dry execution.
	if a.dry {
		return a.dryRun()
	}
""")
mut('C04', 'unmet_dag_preconditions_only_logged', A, """	if err := a.checkPreconditions(); err != nil {
		return err
	}
""", """	if err := a.checkPreconditions(); err != nil {
		a.logger.Error("Preconditions are not met", "error", err)
	}
""")
mut('C14', 'graph_error_only_logged', A, """	graph, err := scheduler.NewExecutionGraph(a.logger, a.dag.Steps...)
	if err != nil {
		return err
	}
	a.graph = graph
	return nil""", """	graph, err := scheduler.NewExecutionGraph(a.logger, a.dag.Steps...)
	if err != nil {
		a.logger.Error("Invalid graph", "error", err)
		graph, _ = scheduler.NewExecutionGraph(a.logger)
	}
	a.graph = graph
	return nil""")
mut('C08', 'final_status_write_removed', A, """	a.logger.Info("Workflow execution finished", "status", finishedStatus.Status)
	if err := a.historyStore.Write(a.Status()); err != nil {
		a.logger.Error("Status write failed", "error", err)
	}
""", """	a.logger.Info("Workflow execution finished", "status", finishedStatus.Status)
""")
mut('C08', 'initial_status_write_removed', A, """	if err := a.historyStore.Write(a.Status()); err != nil {
		a.logger.Error("Failed to write status", "error", err)
	}

	// Start the unix socket server""", """	// Start the unix socket server""")
mut('C03', 'scheduler_not_told_about_dry', A, """		Dry:           a.dry,
""", "")

# ---- C08 reported status
CL = 'internal/client/client.go'
MS = 'internal/persistence/model/status.go'
MN = 'internal/persistence/model/node.go'
mut('C08', 'stale_running_record_not_corrected', CL, """	status.CorrectRunningStatus()
	return status, nil""", """	return status, nil""")
mut('C08', 'history_preferred_over_live_status', CL, """	currStatus, _ := e.currentStatus(workflow)
	if currStatus != nil {
		return currStatus, nil
	}
	status, err := e.dataStore.HistoryStore().ReadStatusToday(workflow.Location)""", """	status, err := e.dataStore.HistoryStore().ReadStatusToday(workflow.Location)
	if err == nil && status.Status != scheduler.StatusRunning {
		return status, nil
	}
	currStatus, _ := e.currentStatus(workflow)
	if currStatus != nil {
		return currStatus, nil
	}""")
mut('C08', 'socket_timeout_taken_for_not_running', CL, """		if errors.Is(err, sock.ErrTimeout) {
			return nil, err
		}
		return model.NewStatusDefault(workflow), nil
	}
	return model.StatusFromJSON(ret)""", """		return model.NewStatusDefault(workflow), nil
	}
	return model.StatusFromJSON(ret)""")
mut('C08', 'correction_relabels_as_finished', MS, """		st.Status = scheduler.StatusError
		st.StatusText = st.Status.String()""", """		st.Status = scheduler.StatusSuccess
		st.StatusText = st.Status.String()""")
mut('C08', 'node_record_drops_retry_count', MN, """		RetryCount: node.State.RetryCount,
""", "")
mut('C08', 'node_record_takes_status_text_only', MN, """		Status:     node.State.Status,
		StatusText: node.State.Status.String(),""", """		StatusText: node.State.Status.String(),""")

# ---- C06 / C07 history store
JD = 'internal/persistence/jsondb/jsondb.go'
JW = 'internal/persistence/jsondb/writer.go'
UT = 'internal/util/utils.go'
mut('C06', 'retention_removes_new_runs', JD, """		if info.ModTime().Before(ot) {""", """		if info.ModTime().After(ot) {""")
mut('C06', 'lookup_ignores_the_request_id', JD, """		if status != nil && status.RequestID == requestID {""", """		if status != nil {""")
mut('C06', 'pattern_without_the_dag_directory', JD, """	return escapeGlob(s.prefixWithDirectory(dagFile)) + "*" + extDat""", """	return escapeGlob(filepath.Join(s.location, "*", prefix(dagFile))) + "*" + extDat""")
mut('C06', 'recent_history_oldest_first', JD, """		return timestamp(files[i]) > timestamp(files[j])""", """		return timestamp(files[i]) < timestamp(files[j])""")
mut('C06', 'history_directory_without_path_hash', JD, """	return filepath.Join(s.location, fmt.Sprintf("%s-%s", prefix, v))""", """	_ = v
	return filepath.Join(s.location, fmt.Sprintf("%s-%s", prefix, "history"))""")
mut('C06', 'delete_uses_retention_of_one_day', JD, """	return s.RemoveOld(dagFile, 0)""", """	return s.RemoveOld(dagFile, 1)""")
mut('C06', 'run_file_name_without_request_id', JD, """		util.TruncString(requestID, requestIDLenSafe),
	), nil""", """		util.TruncString("", requestIDLenSafe),
	), nil""")
mut('C06', 'glob_escape_dropped_for_latest', JD, """		pattern = fmt.Sprintf("%s.*.*.dat", escapeGlob(s.prefixWithDirectory(dagFile)))""", """		pattern = fmt.Sprintf("%s.*.*.dat", s.prefixWithDirectory(dagFile))""")
mut('C07', 'original_removed_before_copy_is_written', JD, """	w := &writer{target: f}
	if err := w.open(); err != nil {
		return err
	}
	defer w.close()

	if err := w.write(status); err != nil {""", """	w := &writer{target: f}
	if err := os.Remove(original); err != nil {
		return err
	}
	if err := w.open(); err != nil {
		return err
	}
	defer w.close()

	if err := w.write(status); err != nil {""")
mut('C07', 'write_acknowledged_without_flush', JW, """	if err := w.writer.WriteByte('\\n'); err != nil {
		return err
	}

	return w.writer.Flush()""", """	return w.writer.WriteByte('\\n')""")
mut('C07', 'record_without_newline', JW, """	if err := w.writer.WriteByte('\\n'); err != nil {
		return err
	}
""", "")
mut('C07', 'existing_file_is_truncated', UT, """	if FileExists(file) {
		return openFile(file)
	}
	return createFile(file)""", """	return createFile(file)""")
mut('C07', 'first_decodable_line_wins', JD, """			if err == nil {
				ret = m
			}""", """			if err == nil && ret == nil {
				ret = m
			}""")
mut('C07', 'failed_copy_removes_the_original', JD, """		if removeErr := os.Remove(f); removeErr != nil {""", """		if removeErr := os.Remove(original); removeErr != nil {""")
mut('C07', 'close_skips_compaction_result', JD, """	if err := s.Compact(s.writer.target); err != nil {
		return err
	}
	s.cache.Invalidate(s.writer.target)""", """	s.cache.Invalidate(s.writer.target)""")

# ---- C13 / C19 loader
BU = 'internal/dag/builder.go'
PA = 'internal/dag/parser.go'
AS = 'internal/dag/assert.go'
LO = 'internal/dag/loader.go'
mut('C13', 'type_assertion_without_comma_ok', BU, """				executorConfig, ok := v.(map[any]any)
				if !ok {
					return errExecutorConfigValueMustBeMap
				}""", """				executorConfig := v.(map[any]any)""")
mut('C13', 'step_name_check_dropped', AS, """	if def.Name == "" {
		return errStepNameRequired
	}
""", "")
mut('C13', 'schedule_parse_error_ignored', PA, """		parsed, err := cronParser.Parse(v)
		if err != nil {
			return nil, fmt.Errorf("%w: %s", errInvalidSchedule, err)
		}
		ret = append(ret, Schedule{Expression: v, Parsed: parsed})""", """		parsed, _ := cronParser.Parse(v)
		ret = append(ret, Schedule{Expression: v, Parsed: parsed})""")
mut('C13', 'signal_name_not_validated', PA, """		sig := unix.SignalNum(sigDef)
		if sig == 0 {
			return fmt.Errorf("%w: %s", errInvalidSignal, sigDef)
		}
		step.SignalOnStop = sigDef""", """		sig := unix.SignalNum(sigDef)
		if sig == 0 && len(sigDef) == 0 {
			return fmt.Errorf("%w: %s", errInvalidSignal, sigDef)
		}
		step.SignalOnStop = sigDef""")
mut('C13', 'nothing_to_execute_check_dropped', BU, """	if step.Command == "" && step.ExecutorConfig.Type == "" &&
		step.SubWorkflow == nil {
		return nil, errStepCommandOrCallRequired
	}
""", "")
mut('C13', 'null_entries_not_rejected', BU, """	if err := assertNoNullEntries(def); err != nil {
		return nil, err
	}
""", "")
mut('C13', 'unknown_schedule_key_falls_through', PA, """		default:
			return fmt.Errorf("%w: unknown schedule key %q", errInvalidSchedule, key)

		}""", """		}""")
mut('C13', 'builder_errors_dropped', BU, """	if len(b.errs) > 0 {
		return nil, &b.errs
	}
""", "")
mut('C13', 'maps_in_lists_not_converted', BU, """			case []any:
				if err := convertList(vv, &queue); err != nil {
					return err
				}

			}
		}
		queue = queue[1:]""", """			}
		}
		queue = queue[1:]""")
mut('C19', 'env_evaluated_when_listing', BU, """		if !opts.noEval {
			// Evaluate the value of the environment variable.""", """		if !opts.metadataOnly {
			// Evaluate the value of the environment variable.""")
mut('C19', 'validation_loads_with_evaluation', LO, """func LoadYAML(data []byte) (*DAG, error) {
	return loadYAML(data, buildOpts{
		metadataOnly: false,
		noEval:       true,
	})""", """func LoadYAML(data []byte) (*DAG, error) {
	return loadYAML(data, buildOpts{
		metadataOnly: false,
		noEval:       false,
	})""")
mut('C19', 'logdir_command_runs_again', BU, """	if !b.opts.noEval {
		// Command substitution is evaluated only when the DAG is loaded
		// for execution, not for listing, viewing or validating it.
		logDir, err = substituteCommands(logDir)
		if err != nil {
			return err
		}
	}""", """	logDir, err = substituteCommands(logDir)
	if err != nil {
		return err
	}""")
mut('C19', 'step_dir_command_substitution_added', BU, """	step := &Step{
		Name:           def.Name,""", """	if dir, err := substituteCommands(def.Dir); err == nil {
		def.Dir = dir
	}
	step := &Step{
		Name:           def.Name,""")
mut('C19', 'params_always_evaluated', BU, """	b.dag.Params, envs, err = parseParams(params, !b.opts.noEval, b.opts)""", """	b.dag.Params, envs, err = parseParams(params, true, b.opts)""")
mut('C19', 'positional_params_exported_again', PA, """		if !options.noEval {
			if err = os.Setenv(strconv.Itoa(i+1), strParam); err != nil {
				return
			}
		}""", """		if err = os.Setenv(strconv.Itoa(i+1), strParam); err != nil {
			return
		}""")

# ---- C18 definitions
DS = 'internal/persistence/local/dag_store.go'
mut('C18', 'create_existence_test_dropped', DS, """	if exists(loc) {
		return "", fmt.Errorf("%w: %s", errDAGFileAlreadyExists, loc)
	}
	// nolint: gosec
	return name, os.WriteFile(loc, spec, 0644)""", """	// nolint: gosec
	return name, os.WriteFile(loc, spec, 0644)""")
mut('C18', 'rename_existence_test_dropped', DS, """	if exists(newLoc) {
		return fmt.Errorf("%w: %s", errDAGFileAlreadyExists, newLoc)
	}
	return os.Rename(oldLoc, newLoc)""", """	return os.Rename(oldLoc, newLoc)""")
mut('C18', 'save_before_validation', DS, """	// validation
	_, err := dag.LoadYAML(spec)
	if err != nil {
		return err
	}
	loc, err := d.fileLocation(name)
	if err != nil {
		return err
	}
	if !exists(loc) {
		return fmt.Errorf("%w: %s", errDOGFileNotExist, loc)
	}
	err = writeFileAtomic(loc, spec)
	if err != nil {
		return err
	}""", """	loc, err := d.fileLocation(name)
	if err != nil {
		return err
	}
	if !exists(loc) {
		return fmt.Errorf("%w: %s", errDOGFileNotExist, loc)
	}
	err = writeFileAtomic(loc, spec)
	if err != nil {
		return err
	}
	// validation
	if _, err := dag.LoadYAML(spec); err != nil {
		return err
	}""")
mut('C18', 'save_writes_in_place_again', DS, """	err = writeFileAtomic(loc, spec)
	if err != nil {
		return err
	}""", """	err = os.WriteFile(loc, spec, defaultPerm)
	if err != nil {
		return err
	}""")
mut('C18', 'atomic_save_renames_after_failed_write', DS, """	if err == nil {
		err = os.Rename(tmpName, file)
	}""", """	if renameErr := os.Rename(tmpName, file); err == nil {
		err = renameErr
	}""")
mut('C18', 'history_not_renamed_with_the_definition', CL, """	historyStore := e.dataStore.HistoryStore()
	return historyStore.Rename(oldDAG.Location, newDAG.Location)""", """	_ = oldDAG
	_ = newDAG
	return nil""")
mut('C18', 'history_rename_arguments_swapped', CL, """	return historyStore.Rename(oldDAG.Location, newDAG.Location)""", """	return historyStore.Rename(newDAG.Location, oldDAG.Location)""")
mut('C18', 'delete_removes_definition_even_if_history_removal_failed', CL, """	err := e.dataStore.HistoryStore().RemoveAll(loc)
	if err != nil {
		return err
	}
	dagStore := e.dataStore.DAGStore()""", """	_ = e.dataStore.HistoryStore().RemoveAll(loc)
	dagStore := e.dataStore.DAGStore()""")
mut('C18', 'history_rename_removes_the_old_files', JD, """		if err := os.Rename(m, filepath.Join(newDir, f)); err != nil {
			log.Printf("failed to rename %s to %s: %s", m, f, err)
		}""", """		if err := os.Rename(m, filepath.Join(newDir, f)); err != nil {
			log.Printf("failed to rename %s to %s: %s", m, f, err)
			_ = os.Remove(m)
		}""")

# ---- C17 authentication middleware
MB = 'internal/frontend/middleware/basic_auth.go'
MT = 'internal/frontend/middleware/token_auth.go'
MG = 'internal/frontend/middleware/global.go'
mut('C17', 'token_comparison_dropped', MT, """			if subtle.ConstantTimeCompare([]byte(bearer), []byte(token)) != 1 {
				tokenAuthFailed(w, realm)
				return
			}
""", """			_ = subtle.ConstantTimeCompare([]byte(bearer), []byte(token))
""")
mut('C17', 'bearer_skips_basic_auth_without_a_token_layer', MB, """	return authToken != nil &&
		len(authHeader) >= 2 &&""", """	return len(authHeader) >= 2 &&""")
mut('C17', 'unknown_user_or_wrong_password', MB, """			if !credUserOk || subtle.ConstantTimeCompare(""", """			if !credUserOk && subtle.ConstantTimeCompare(""")
mut('C17', 'token_layer_dropped_when_basic_is_configured', MG, """	if authToken != nil {
		next = TokenAuth("restricted", authToken.Token)(next)
	}
""", """	if authToken != nil && authBasic == nil {
		next = TokenAuth("restricted", authToken.Token)(next)
	}
""")
mut('C17', 'empty_token_accepted', MT, """			bearer := authHeader[1]
			if bearer == "" {
				tokenAuthFailed(w, realm)
				return
			}
""", """			bearer := authHeader[1]
""")
mut('C17', 'api_prefix_check_inverted', MG, """				if strings.HasPrefix(r.URL.Path, "/api") {
					next.ServeHTTP(w, r)
				} else {
					defaultHandler.ServeHTTP(w, r)
				}""", """				if strings.HasPrefix(r.URL.Path, "/api/v1") {
					next.ServeHTTP(w, r)
				} else {
					defaultHandler.ServeHTTP(w, r)
				}""")
mut('C17', 'authenticated_marker_set_before_the_check', MB, """			user, pass, ok := r.BasicAuth()
			if !ok {
				basicAuthFailed(w, realm)
				return
			}
""", """			user, pass, ok := r.BasicAuth()
			if !ok {
				next.ServeHTTP(w, r.WithContext(withAuthenticated(r.Context())))
				return
			}
""")
mut('C17', 'failed_basic_auth_falls_through', MB, """			if !credUserOk || subtle.ConstantTimeCompare(
				[]byte(pass),
				[]byte(credPass),
			) != 1 {
				basicAuthFailed(w, realm)
				return
			}""", """			if !credUserOk || subtle.ConstantTimeCompare(
				[]byte(pass),
				[]byte(credPass),
			) != 1 {
				basicAuthFailed(w, realm)
			}""")

# ---- C20 API control actions
HD = 'internal/frontend/dag/handler.go'
mut('C20', 'start_allowed_while_running', HD, """		if dagStatus.Status.Status == scheduler.StatusRunning {
			return nil, newBadRequestError(errInvalidArgs)
		}
		h.client.StartAsync(""", """		h.client.StartAsync(""")
mut('C20', 'stop_allowed_when_not_running', HD, """		if dagStatus.Status.Status != scheduler.StatusRunning {
			return nil, newBadRequestError(
				fmt.Errorf("the DAG is not running: %w", errInvalidArgs),
			)
		}
""", "")
mut('C20', 'status_edit_allowed_while_running', HD, """	// Do not allow updating the status if the DAG is still running.
	if dagStatus.Status.Status == scheduler.StatusRunning {
		return nil, newBadRequestError(
			fmt.Errorf("the DAG is still running: %w", errInvalidArgs),
		)
	}
""", "")
mut('C20', 'status_edit_hits_the_first_matching_step', HD, """		if n.Step.Name == params.Body.Step {
			idxToUpdate = idx
			ok = true
		}""", """		if n.Step.Name == params.Body.Step && !ok {
			idxToUpdate = idx
			ok = true
		}""")
mut('C20', 'status_edit_hits_the_next_node', HD, """	status.Nodes[idxToUpdate].Status = to
	status.Nodes[idxToUpdate].StatusText = to.String()""", """	if idxToUpdate+1 < len(status.Nodes) {
		idxToUpdate++
	}
	status.Nodes[idxToUpdate].Status = to
	status.Nodes[idxToUpdate].StatusText = to.String()""")
mut('C20', 'start_parameters_not_forwarded', HD, """		h.client.StartAsync(dagStatus.DAG, client.StartOptions{
			Params: params.Body.Params,
		})""", """		h.client.StartAsync(dagStatus.DAG, client.StartOptions{})""")
mut('C20', 'retry_without_request_id', HD, """		if params.Body.RequestID == "" {
			return nil, newBadRequestError(
				fmt.Errorf("request-id is required: %w", errInvalidArgs),
			)
		}
		if err := h.client.Retry(""", """		if err := h.client.Retry(""")
mut('C20', 'status_edit_of_the_live_run_accepted', CL, """		if unmarshalled != nil && unmarshalled.RequestID == status.RequestID &&
			unmarshalled.Status == scheduler.StatusRunning {
			return errDAGIsRunning
		}""", """		if unmarshalled != nil && unmarshalled.RequestID != status.RequestID &&
			unmarshalled.Status == scheduler.StatusRunning {
			return errDAGIsRunning
		}""")
mut('C20', 'start_drops_the_quotes', CL, """		args = append(args, fmt.Sprintf(`"%s"`, escapeArg(opts.Params)))""", """		args = append(args, escapeArg(opts.Params))""")
mut('C20', 'escape_arg_also_escapes_spaces', CL, """		} else if char == '\\n' {
			_, _ = escaped.WriteString("\\\\n")
		} else {""", """		} else if char == '\\n' {
			_, _ = escaped.WriteString("\\\\n")
		} else if char == ' ' {
			_, _ = escaped.WriteString("\\\\ ")
		} else {""")
mut('C20', 'status_edit_written_to_the_latest_run', CL, """	return e.dataStore.HistoryStore().Update(
		workflow.Location, status.RequestID, status,
	)""", """	latest, err := e.dataStore.HistoryStore().ReadStatusToday(workflow.Location)
	if err != nil {
		return err
	}
	return e.dataStore.HistoryStore().Update(
		workflow.Location, latest.RequestID, status,
	)""")

# ---- C09 daemon
D = 'internal/scheduler/scheduler.go'
J = 'internal/scheduler/job.go'
mut('C09', 'read_at_tick_instead_of_one_second_before', D, """s.entryReader.Read(now.Add(-time.Second))""", """s.entryReader.Read(now)""")
mut('C09', 'after_becomes_not_before', D, """		if t.After(now) {
			break""", """		if !t.Before(now) {
			break""")
mut('C09', 'next_tick_two_minutes', D, """return now.Add(time.Minute).Truncate(time.Second * 60)""", """return now.Add(2 * time.Minute).Truncate(time.Second * 60)""")
mut('C09', 'tick_not_advanced_from_previous', D, """			t = s.nextTick(t)""", """			t = s.nextTick(now())""")
mut('C09', 'sort_removed', D, """	sort.SliceStable(entries, func(i, j int) bool {
		return entries[i].Next.Before(entries[j].Next)
	})
""", """	_ = sort.SliceStable
""")
mut('C09', 'sort_descending', D, """		return entries[i].Next.Before(entries[j].Next)""", """		return entries[j].Next.Before(entries[i].Next)""")
mut('C09', 'zero_next_fires_again', D, """		if t.IsZero() {
			// The schedule has no activation time at all (e.g. "0 0 30 2 *"):
			// cron reports that as the zero time, which must not count as due.
			continue
		}
""", "")
mut('C09', 'stop_entries_dispatch_start', D, """	case entryTypeStop:
		return e.Job.Stop()""", """	case entryTypeStop:
		return e.Job.Start()""")
mut('C09', 'start_guard_equal_case_dropped', J, """		if lastExecTime.After(j.Next) || j.Next.Equal(lastExecTime) {""", """		if lastExecTime.After(j.Next) {""")
mut('C09', 'start_guard_ignores_running', J, """	if latestStatus.Status == dagscheduler.StatusRunning {
		// already running
		return errJobRunning
	}

	// check the last execution time""", """	// check the last execution time""")
mut('C09', 'stop_without_running_check', J, """	if latestStatus.Status != dagscheduler.StatusRunning {
		return errJobIsNotRunning
	}
""", """	_ = latestStatus
""")

# ---- socket address / history directory are functions of the DAG file's full path (C16, C06, C18, C05, C20)
DG = 'internal/dag/dag.go'
mut('C16', 'socket_address_per_time_of_call', DG, """	return filepath.Join("/tmp", fmt.Sprintf("@blackdagger-%s-%x.sock", name, bs))""",
    """	return filepath.Join("/tmp", fmt.Sprintf("@blackdagger-%s-%x-%d.sock", name, bs, time.Now().Unix()))""")
mut('C16', 'socket_address_from_file_name_only', DG, """	_, _ = h.Write([]byte(s))
	bs := h.Sum(nil)""", """	_, _ = h.Write([]byte(name))
	bs := h.Sum(nil)""")
mut('C16', 'probe_addresses_another_socket', 'internal/client/client.go', """func (*client) GetCurrentStatus(workflow *dag.DAG) (*model.Status, error) {
	client := sock.NewClient(workflow.SockAddr())""", """func (*client) GetCurrentStatus(workflow *dag.DAG) (*model.Status, error) {
	client := sock.NewClient((&dag.DAG{Location: workflow.Name}).SockAddr())""")
mut('C16', 'run_listens_on_a_socket_named_after_the_dag_name', 'internal/agent/agent.go', """		a.dag.SockAddr(),""", """		(&dag.DAG{Location: a.dag.Name}).SockAddr(),""")
mut('C20', 'stop_request_goes_to_the_status_endpoint', 'internal/client/client.go', """	_, err := client.Request("POST", "/stop")
	return err""", """	_, err := client.Request("POST", "/status")
	return err""")
mut('C06', 'history_directory_from_file_name_only', 'internal/persistence/jsondb/jsondb.go', """	_, _ = h.Write([]byte(name))""", """	_, _ = h.Write([]byte(filepath.Base(name)))""")
mut('C18', 'history_directory_without_hash', 'internal/persistence/jsondb/jsondb.go', """	return filepath.Join(s.location, fmt.Sprintf("%s-%s", prefix, v))""", """	_ = v
	return filepath.Join(s.location, prefix)""")

# ---- status words (C08, C04, C02, C20)
mut('C08', 'failed_run_is_shown_as_finished', S, """	case StatusError:
		return "failed"
	case StatusCancel:
		return "canceled"
	case StatusSuccess:
""", """	case StatusError:
		return "finished"
	case StatusCancel:
		return "canceled"
	case StatusSuccess:
""")
mut('C08', 'skipped_step_is_shown_as_finished', N, """		return "skipped"
""", """		return "finished"
""")
mut('C08', 'node_record_text_is_always_finished', 'internal/persistence/model/node.go', """		StatusText: node.State.Status.String(),""", """		StatusText: scheduler.NodeStatusSuccess.String(),""")
mut('C08', 'corrected_status_keeps_the_word_running', 'internal/persistence/model/status.go', """		st.StatusText = st.Status.String()""", """		st.StatusText = scheduler.StatusRunning.String()""")
mut('C20', 'edited_step_keeps_its_old_word', 'internal/frontend/dag/handler.go', """	status.Nodes[idxToUpdate].StatusText = to.String()
""", "")

# ---- the goroutine spawned for a due entry invokes that entry (C09)
mut('C09', 'spawned_goroutine_skips_restart_entries', 'internal/scheduler/scheduler.go', """		go func(e *entry) {
			if err := e.Invoke(); err != nil {""", """		go func(e *entry) {
			if e.EntryType == entryTypeRestart {
				return
			}
			if err := e.Invoke(); err != nil {""")

# ---- a new attempt of a step has not finished (C05, fix 447a967)
mut('C05', 'retried_attempt_keeps_the_old_finishing_time', N, """	n.data.State.FinishedAt = time.Time{}

""", "")
# ---- what "the precondition is met" means (C02, C04)
PU = 'internal/patternutil/patternutil.go'
mut('C02', 'empty_value_never_meets_an_empty_expectation', PU, """		for _, p := range literalPatterns {
			if p == "" {
				return true
			}
		}
		// Check regex patterns against empty string""", """		// Check regex patterns against empty string""")
mut('C04', 'condition_value_compared_as_substring', 'internal/dag/condition.go', """	if !patternutil.MatchPattern(actual, []string{c.Expected}, patternutil.WithExactMatch()) {""", """	if !patternutil.MatchPattern(actual, []string{c.Expected}) {""")

def main():
    import glob
    for f in glob.glob(V + '/C*/*.patch'):
        os.remove(f)
    bad = 0
    for pid, name, path, old, new, count in M:
        src = open('/repo/' + path).read()
        if src.count(old) != count:
            print('MUTANT DOES NOT APPLY (%d matches): %s/%s' % (src.count(old), pid, name)); bad += 1; continue
        dst = src.replace(old, new)
        d = ''.join(difflib.unified_diff(src.splitlines(True), dst.splitlines(True), 'a/' + path, 'b/' + path))
        os.makedirs(V + '/' + pid, exist_ok=True)
        open('%s/%s/%s.patch' % (V, pid, name), 'w').write(d)
    print('%d mutants written, %d do not apply' % (len(M) - bad, bad))
    sys.exit(1 if bad else 0)
main()
