package model

// Bounded stand-in for C13 (DESIGN §2.12): "the status of an accepted DAG is always serialisable" needs a
// recursive predicate over the decoded YAML tree (no map[any]any anywhere below executor.config), which the
// contracts do not express.  The real loader (dag.LoadYAML -> parseExecutor -> convertMap) and the real status
// construction and JSON encoding are executed on every executor-config tree within the bound.

import (
	"fmt"
	"os"
	"strings"
	"testing"

	"github.com/ErdemOzgen/blackdagger/internal/dag"
	"github.com/ErdemOzgen/blackdagger/internal/dag/scheduler"
)

type verifTree struct {
	kind     string // str int list map
	children []*verifTree
}

func verifTrees(depth, width int) []*verifTree {
	out := []*verifTree{{kind: "str"}, {kind: "int"}}
	if depth == 0 {
		return out
	}
	sub := verifTrees(depth-1, width)
	for _, k := range []string{"list", "map"} {
		out = append(out, &verifTree{kind: k}) // empty container
		for _, a := range sub {
			out = append(out, &verifTree{kind: k, children: []*verifTree{a}})
			if width >= 2 {
				for _, b := range sub {
					out = append(out, &verifTree{kind: k, children: []*verifTree{a, b}})
				}
			}
		}
	}
	return out
}

// flow-style YAML of a tree
func (t *verifTree) yaml() string {
	switch t.kind {
	case "str":
		return "\"v\""
	case "int":
		return "7"
	case "list":
		var p []string
		for _, c := range t.children {
			p = append(p, c.yaml())
		}
		return "[" + strings.Join(p, ", ") + "]"
	default:
		var p []string
		for i, c := range t.children {
			p = append(p, fmt.Sprintf("k%d: %s", i, c.yaml()))
		}
		return "{" + strings.Join(p, ", ") + "}"
	}
}

func TestVerifStandinSerialisable(t *testing.T) {
	depth, width := 2, 2
	if os.Getenv("VERIF_TIER") == "thorough" {
		depth = 3
	}
	trees := verifTrees(depth, width)
	total := len(trees)
	if depth == 3 && len(trees) > 60000 {
		trees = trees[:60000]
	}
	cases, viol := 0, 0
	for _, tr := range trees {
		for _, where := range []string{"step", "handler"} {
			cases++
			y := "steps:\n  - name: s\n    command: \"true\"\n"
			ex := "    executor:\n      type: http\n      config:\n        top: " + tr.yaml() + "\n"
			if where == "step" {
				y = "steps:\n  - name: s\n    command: \"true\"\n" + ex
			} else {
				y += "handlerOn:\n  exit:\n    command: \"true\"\n" + ex
			}
			var d *dag.DAG
			var err error
			func() {
				defer func() {
					if r := recover(); r != nil {
						err = fmt.Errorf("PANIC: %v", r)
					}
				}()
				d, err = dag.LoadYAML([]byte(y))
			}()
			if err != nil {
				if strings.HasPrefix(err.Error(), "PANIC") {
					viol++
					if viol <= 5 {
						fmt.Printf("VSTANDIN-VIOLATION input=%s config=%s :: the loader crashed: %v\n", where, tr.yaml(), err)
					}
				}
				continue // rejected with an error: fine
			}
			st := NewStatus(d, nil, scheduler.StatusNone, 1, nil, nil)
			b, err := st.ToJSON()
			if err != nil {
				viol++
				if viol <= 5 {
					fmt.Printf("VSTANDIN-VIOLATION input=%s config=%s :: accepted, but its status cannot be recorded: %v\n", where, tr.yaml(), err)
				}
				continue
			}
			if _, err := StatusFromJSON(string(b)); err != nil {
				viol++
				if viol <= 5 {
					fmt.Printf("VSTANDIN-VIOLATION input=%s config=%s :: accepted and recorded, but the record cannot be read back: %v\n", where, tr.yaml(), err)
				}
			}
		}
	}
	fmt.Printf("VSTANDIN cases=%d violations=%d bound=executor.config trees over {string, int, list, map} of depth <= %d with <= %d children per node: the first %d of %d in enumeration order (all of depth <= 2), each as a step executor and as a handler executor\n",
		cases, viol, depth, width, len(trees), total)
}
