package model

// Bounded stand-in for C11 (restart and retry re-use exactly the parameter values of the run they repeat): the
// tokenizer of parameter text is a regular expression and outside the deductive model, so the round trip
//     given text --dag.Load--> parameters --model.Params--> recorded text --dag.Load--> parameters
// is executed with the real code on every text within the bound; the two parameter lists and the positional
// variables exported to the environment must agree.  Injected with `go test -overlay`; nothing is written to /repo.

import (
	"fmt"
	"os"
	"path/filepath"
	"reflect"
	"strconv"
	"testing"

	"github.com/ErdemOzgen/blackdagger/internal/dag"
)

func TestVerifStandinParamsRoundTrip(t *testing.T) {
	dir := t.TempDir()
	file := filepath.Join(dir, "w.yaml")
	if err := os.WriteFile(file, []byte("steps:\n  - name: s\n    command: \"true\"\n"), 0o600); err != nil {
		t.Fatal(err)
	}
	alphabet := []byte{'a', ' ', '"', '\\', '=', 'X', '\''}
	maxLen := 5
	if os.Getenv("VERIF_TIER") == "thorough" {
		maxLen = 6
	}
	cases, viol, skipped := 0, 0, 0
	envOf := func(n int) []string {
		var out []string
		for i := 1; i <= n; i++ {
			out = append(out, os.Getenv(strconv.Itoa(i)))
		}
		return out
	}
	var rec func(cur []byte)
	rec = func(cur []byte) {
		if len(cur) > 0 {
			cases++
			given := string(cur)
			d1, err := dag.Load("", file, given)
			if err != nil {
				skipped++
			} else {
				env1 := envOf(len(d1.Params))
				recorded := Params(d1.Params)
				msg := ""
				d2, err := dag.Load("", file, recorded)
				switch {
				case len(d1.Params) == 0:
					// no parameters were given (blank text): the DAG's defaults apply on retry as they did at start
				case err != nil:
					msg = "the recorded text is refused: " + err.Error()
				case !reflect.DeepEqual(d1.Params, d2.Params):
					msg = fmt.Sprintf("the run had %q, a retry gets %q", d1.Params, d2.Params)
				case !reflect.DeepEqual(env1, envOf(len(d2.Params))):
					msg = fmt.Sprintf("the run exported $1.. = %q, a retry exports %q", env1, envOf(len(d2.Params)))
				}
				if msg != "" {
					viol++
					if viol <= 5 {
						fmt.Printf("VSTANDIN-VIOLATION input=hex:%x :: given %q, recorded as %q: %s\n", given, given, recorded, msg)
					}
				}
			}
		}
		if len(cur) == maxLen {
			return
		}
		for _, c := range alphabet {
			rec(append(cur, c))
		}
	}
	rec(nil)
	// second phase: parameters written in the documented syntax are read back with exactly the given names and values
	// (bare word when possible, otherwise "quoted" with \" for a quote; NAME=value / NAME="quoted value")
	type pv struct{ name, value string }
	render := func(p pv) (string, bool) {
		v := p.value
		needs := v == ""
		for _, c := range v {
			if c == ' ' || c == '"' {
				needs = true
			}
		}
		if needs && len(v) > 0 && v[len(v)-1] == '\\' {
			return "", false // not writable in the syntax (no escape for a backslash before the closing quote)
		}
		if needs {
			q := ""
			for _, c := range v {
				if c == '"' {
					q += "\\\""
				} else {
					q += string(c)
				}
			}
			v = "\"" + q + "\""
		} else if p.name == "" && len(v) > 0 && indexByte(v, '=') > 0 {
			v = "\"" + v + "\"" // a bare x=y would be a named parameter
		}
		if p.name != "" {
			return p.name + "=" + v, true
		}
		return v, true
	}
	var values func(max int) []string
	values = func(max int) []string {
		out := []string{""}
		var gen func(cur []byte)
		gen = func(cur []byte) {
			if len(cur) > 0 {
				out = append(out, string(cur))
			}
			if len(cur) == max {
				return
			}
			for _, c := range []byte{'a', ' ', '"', '\\', '=', '\''} {
				gen(append(cur, c))
			}
		}
		gen(nil)
		return out
	}
	checkList := func(ps []pv) {
		text := ""
		var want []string
		for i, p := range ps {
			r, ok := render(p)
			if !ok {
				return
			}
			if i > 0 {
				text += " "
			}
			text += r
			if p.name != "" {
				want = append(want, p.name+"="+p.value)
			} else {
				want = append(want, p.value)
			}
		}
		cases++
		d, err := dag.Load("", file, text)
		msg := ""
		switch {
		case err != nil:
			msg = "refused: " + err.Error()
		case !reflect.DeepEqual(d.Params, want):
			msg = fmt.Sprintf("read back as %q, written were %q", d.Params, want)
		}
		if msg != "" {
			viol++
			if viol <= 5 {
				fmt.Printf("VSTANDIN-VIOLATION input=hex:%x :: written %q: %s\n", text, text, msg)
			}
		}
	}
	for _, name := range []string{"", "X"} {
		for _, v := range values(4) {
			if name == "" && v == "" {
				continue // an empty text means "no parameters given"
			}
			checkList([]pv{{name, v}})
		}
	}
	for _, n1 := range []string{"", "X"} {
		for _, v1 := range values(2) {
			for _, n2 := range []string{"", "Y"} {
				for _, v2 := range values(2) {
					checkList([]pv{{n1, v1}, {n2, v2}})
				}
			}
		}
	}
	fmt.Printf("VSTANDIN cases=%d violations=%d bound=every parameter text of length <= %d over {a, space, double quote, backslash, =, X, single quote} (%d refused by the loader); one parameter with a value of length <= 4 and two parameters with values of length <= 2 over {a, space, double quote, backslash, =, single quote}, named and positional, written in the documented syntax and read back\n", cases, viol, maxLen, skipped)
}

func indexByte(s string, c byte) int {
	for i := 0; i < len(s); i++ {
		if s[i] == c {
			return i
		}
	}
	return -1
}
