package jsondb

// Bounded stand-in for C06 (DESIGN §2.12): the naming functions whose correctness rests on library internals that
// contracts cannot reach (md5/hex, regexp, filepath.Match, time.Format) are executed on every input of a stated
// finite set and compared with an independent oracle:
//   1. getDirectory == <location>/<prefix>-<md5hex(full path)>
//   2. a run file produced by newFile is matched by the glob pattern of its own DAG (so it is found again),
//      and by the "latest" patterns used by latestToday,
//   3. and by no other DAG's pattern (queries and clean-ups of one DAG never see another DAG's runs),
//   4. filterLatest orders two runs of a DAG by start instant, newest first, whatever the distance between the
//      instants (1 ms ... 1 year) and whatever the input order.
// Injected with `go test -overlay`; nothing is written to the repository.

import (
	"crypto/md5"
	"encoding/hex"
	"fmt"
	"os"
	"path/filepath"
	"testing"
	"time"
)

func TestVerifStandinNames(t *testing.T) {
	cases, viol := 0, 0
	perKind := map[string]int{}
	reportK := func(kind, input, text string) {
		viol++
		perKind[kind]++
		if perKind[kind] <= 2 {
			fmt.Printf("VSTANDIN-VIOLATION input=%s :: [%s] %s\n", input, kind, text)
		}
	}
	report := func(input, text string) { reportK("other", input, text) }
	db := New("/data/history", true)
	db.cache.StopEviction()
	// DAG names: every string of length 1..2 over this alphabet, plus a few longer ones
	alpha := []string{"a", "b", "-", "_", ".", " ", "[", "]", "*", "?", "é"}
	var names []string
	for _, x := range alpha {
		names = append(names, x)
		for _, y := range alpha {
			names = append(names, x+y)
		}
	}
	names = append(names, "etl", "etl-daily", "etl-daily-eu", "report.v2", "a[1]", "x*y", "what?", "20240101.10:00:00", "daily.20240101")
	dirs := []string{"/dags", "/dags/team-a", "/other"}
	var dagFiles []string
	for _, d := range dirs {
		for _, n := range names {
			if n == "." || n == ".." || n == " " {
				continue
			}
			dagFiles = append(dagFiles, filepath.Join(d, n+".yaml"))
		}
	}
	base := time.Date(2024, 2, 29, 23, 59, 58, 0, time.Local)
	instants := []time.Time{base, base.Add(time.Millisecond), base.Add(999 * time.Millisecond), base.Add(time.Second), base.Add(1500 * time.Millisecond),
		base.Add(2 * time.Second), base.Add(time.Minute), base.Add(24 * time.Hour), base.AddDate(0, 1, 0), base.AddDate(1, 0, 0)}
	reqIDs := []string{"0f3a", "123456789abcdef0", "req.with.dots"}

	// 1. directory
	for _, f := range dagFiles {
		cases++
		p := prefix(f)
		sum := md5.Sum([]byte(f))
		want := filepath.Join("/data/history", p+"-"+hex.EncodeToString(sum[:]))
		if got := db.getDirectory(f, p); got != want {
			report("dagFile="+f, fmt.Sprintf("history directory is %q, want %q", got, want))
		}
	}
	// 2./3. every run file written under the real naming scheme is found again by the real queries of its own DAG
	// (filepath.Glob on a real directory tree), and by the queries of no other DAG
	tmp, err := os.MkdirTemp("", "verif-c06-")
	if err != nil {
		t.Fatal(err)
	}
	defer os.RemoveAll(tmp)
	fsdb := New(filepath.Join(tmp, "hist[0]"), true) // the data directory itself may contain a metacharacter
	written := map[string][]string{}
	for _, f := range dagFiles {
		for i, ts := range instants[:3] {
			nf, err := fsdb.newFile(f, ts, reqIDs[i%len(reqIDs)])
			cases++
			if err != nil {
				report("dagFile="+f, "newFile failed: "+err.Error())
				continue
			}
			if i == 1 {
				nf = nf[:len(nf)-len(".dat")] + "_c.dat" // a compacted run
			}
			if err := os.MkdirAll(filepath.Dir(nf), 0o755); err != nil {
				t.Fatal(err)
			}
			if err := os.WriteFile(nf, nil, 0o644); err != nil {
				t.Fatal(err)
			}
			written[f] = append(written[f], nf)
		}
	}
	sameSet := func(a, b []string) bool {
		if len(a) != len(b) {
			return false
		}
		m := map[string]int{}
		for _, x := range a {
			m[x]++
		}
		for _, x := range b {
			m[x]--
		}
		for _, v := range m {
			if v != 0 {
				return false
			}
		}
		return true
	}
	for _, f := range dagFiles {
		cases++
		got := fsdb.latest(fsdb.globPattern(f), 100)
		if !sameSet(got, written[f]) {
			kind := "own-pattern"
			for _, g := range got {
				mine := false
				for _, w := range written[f] {
					if w == g {
						mine = true
					}
				}
				if !mine {
					kind = "foreign-match"
				}
			}
			reportK(kind, "dagFile="+f, fmt.Sprintf("recent-history query of %s returns %d files %v, but its recorded runs are %v", f, len(got), got, written[f]))
		}
		want := written[f][len(written[f])-1] // started last
		for _, today := range []bool{true, false} {
			cases++
			got, err := fsdb.latestToday(f, instants[2], today)
			if err != nil || got != want {
				reportK("latest-pattern", "dagFile="+f, fmt.Sprintf("latest-status query (today=%v) of %s returns %q (err=%v), want its last run %q", today, f, got, err, want))
			}
		}
	}
	// 4. recency order
	for _, f := range []string{"/dags/etl.yaml", "/dags/a b.yaml", "/dags/20240101.10:00:00.yaml"} {
		for i := range instants {
			for j := i + 1; j < len(instants); j++ {
				older, _ := db.newFile(f, instants[i], "aaaaaaaa")
				newer, _ := db.newFile(f, instants[j], "00000000")
				for _, variant := range [][2]string{{older, newer}, {older[:len(older)-4] + "_c.dat", newer}, {older, newer[:len(newer)-4] + "_c.dat"}} {
					for _, in := range [][]string{{variant[0], variant[1]}, {variant[1], variant[0]}} {
						cases++
						got := filterLatest(append([]string{}, in...), 2)
						if len(got) != 2 || got[0] != variant[1] {
							reportK("recent-order", fmt.Sprintf("dagFile=%s started=%s,%s", f, instants[i].Format(dateTimeFormat), instants[j].Format(dateTimeFormat)),
								fmt.Sprintf("recent history lists %v: the run started later (%s) is not first", got, variant[1]))
						}
						if one := filterLatest(append([]string{}, in...), 1); len(one) != 1 || one[0] != variant[1] {
							reportK("latest-order", fmt.Sprintf("dagFile=%s started=%s,%s", f, instants[i].Format(dateTimeFormat), instants[j].Format(dateTimeFormat)),
								fmt.Sprintf("latest status is taken from %v, not from the run started later (%s)", one, variant[1]))
						}
					}
				}
			}
		}
	}
	fmt.Printf("VSTANDIN-KINDS %v\n", perKind)
	fmt.Printf("VSTANDIN cases=%d violations=%d bound=%d DAG files (names of length<=2 over %d characters incl. glob metacharacters, 3 directories) x 3 instants; each DAG's queries against a real directory tree holding all runs; recency over all pairs of %d instants 1ms..1y apart\n",
		cases, viol, len(dagFiles), len(alpha), len(instants))
}
