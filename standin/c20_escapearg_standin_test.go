package client

// Bounded stand-in for C20/C11 (DESIGN §2.12): escapeArg is a rune loop over a strings.Builder (UTF-8 decoding and
// the builder are outside the modelled subset).  Its trusted contract — parameters without line breaks are not
// altered; line breaks become the two-character sequences \r / \n and nothing else changes — is audited by
// executing the real function on every string of length <= 4 over an alphabet of troublesome characters.

import (
	"fmt"
	"strings"
	"testing"
)

func TestVerifStandinEscapeArg(t *testing.T) {
	alpha := []string{"a", " ", "\"", "'", "=", "\\", "$", "`", "é", "\t", "\n", "\r"}
	cases, viol := 0, 0
	var gen func(prefix string, depth int)
	check := func(p string) {
		cases++
		got := escapeArg(p)
		want := strings.ReplaceAll(strings.ReplaceAll(p, "\r", "\\r"), "\n", "\\n")
		if got != want {
			viol++
			if viol <= 5 {
				fmt.Printf("VSTANDIN-VIOLATION input=%q :: escapeArg returned %q, want %q (parameters must reach the started process unchanged)\n", p, got, want)
			}
		}
	}
	gen = func(prefix string, depth int) {
		check(prefix)
		if depth == 0 {
			return
		}
		for _, c := range alpha {
			gen(prefix+c, depth-1)
		}
	}
	gen("", 4)
	fmt.Printf("VSTANDIN cases=%d violations=%d bound=every string of length <= 4 over %d characters (quotes, backslash, =, $, backtick, space, tab, CR, LF, a two-byte rune)\n", cases, viol, len(alpha))
}
