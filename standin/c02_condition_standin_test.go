package dag

// Bounded stand-in for C02/C04: what "a precondition is met" means.  evalCondition compares the evaluated value with
// the expected one through patternutil.MatchPattern: line by line, exact comparison for a literal expectation, a
// regular expression after the prefix "re:", and the empty value meets an empty expectation.  The contracts carry
// the empty case (patternutil.MatchPattern#an_empty_value_meets_an_empty_expectation); the line scanner, the option
// closures and the regular expressions are outside the modelled subset, so the rest is audited by executing the real
// evalCondition on every value of up to 4 symbols over an alphabet with letters, blanks and line breaks against
// every expectation of a fixed list, and comparing with an independent reading of the documented rule.

import (
	"fmt"
	"os"
	"regexp"
	"strings"
	"testing"
)

func TestVerifStandinCondition(t *testing.T) {
	alpha := []string{"a", "b", " ", "\n", "\r\n"}
	expectations := []string{"", "a", "b", "ab", "a b", " ", "re:^a$", "re:b", "re:^$", "re:^a", "re:(", "re:"}
	depth := 4
	if os.Getenv("VERIF_TIER") == "thorough" {
		depth = 6
	}
	lines := func(v string) []string {
		// bufio.ScanLines: split at \n, drop one trailing \r per line, no line after a final \n, none for ""
		if v == "" {
			return nil
		}
		parts := strings.Split(v, "\n")
		if parts[len(parts)-1] == "" {
			parts = parts[:len(parts)-1]
		}
		for i := range parts {
			parts[i] = strings.TrimSuffix(parts[i], "\r")
		}
		return parts
	}
	want := func(v, exp string) bool {
		ls := lines(v)
		if strings.HasPrefix(exp, "re:") {
			re, err := regexp.Compile(strings.TrimPrefix(exp, "re:"))
			if err != nil {
				return false
			}
			if len(ls) == 0 {
				return re.MatchString("")
			}
			for _, l := range ls {
				if re.MatchString(l) {
					return true
				}
			}
			return false
		}
		if len(ls) == 0 {
			return exp == ""
		}
		for _, l := range ls {
			if l == exp {
				return true
			}
		}
		return false
	}
	cases, viol := 0, 0
	check := func(v string) {
		os.Setenv("VERIF_STANDIN_COND", v)
		for _, exp := range expectations {
			cases++
			err := evalCondition(Condition{Condition: "${VERIF_STANDIN_COND}", Expected: exp})
			if got := err == nil; got != want(v, exp) {
				viol++
				if viol <= 5 {
					fmt.Printf("VSTANDIN-VIOLATION input=%q :: value %q against expectation %q: met=%v, the documented rule says %v\n", v+"|"+exp, v, exp, got, want(v, exp))
				}
			}
		}
	}
	var gen func(prefix string, d int)
	gen = func(prefix string, d int) {
		check(prefix)
		if d == 0 {
			return
		}
		for _, c := range alpha {
			gen(prefix+c, d-1)
		}
	}
	gen("", depth)
	os.Unsetenv("VERIF_STANDIN_COND")
	fmt.Printf("VSTANDIN cases=%d violations=%d bound=every value of up to %d symbols over {a, b, blank, LF, CRLF} against %d expectations (literal, empty, re: patterns incl. an invalid one)\n", cases, viol, depth, len(expectations))
}
