package scheduler

// Bounded stand-in for C14 (DESIGN §2.12): the real NewExecutionGraph (setup, findStep, addEdge, hasCycle) is
// executed on every dependency relation within the bound and compared with an oracle written independently of
// the code: accepted  <=>  every depends entry names an existing step and the relation has no cycle (DFS).
// Injected into the package with `go test -overlay`; nothing is written to the repository.

import (
	"fmt"
	"os"
	"strings"
	"testing"

	"github.com/ErdemOzgen/blackdagger/internal/dag"
)

func verifCyclic(n int, dep [][]int) bool {
	// colour DFS over edges i -> d (i depends on d)
	col := make([]int, n)
	var visit func(i int) bool
	visit = func(i int) bool {
		col[i] = 1
		for _, d := range dep[i] {
			if d < 0 || d >= n {
				continue
			}
			if col[d] == 1 {
				return true
			}
			if col[d] == 0 && visit(d) {
				return true
			}
		}
		col[i] = 2
		return false
	}
	for i := 0; i < n; i++ {
		if col[i] == 0 && visit(i) {
			return true
		}
	}
	return false
}

type verifCycleStats struct {
	cases, viol int
}

func (s *verifCycleStats) check(n int, dep [][]int) {
	s.cases++
	steps := make([]dag.Step, n)
	dangling := false
	for i := 0; i < n; i++ {
		steps[i] = dag.Step{Name: fmt.Sprintf("s%d", i), Command: "true"}
		for _, d := range dep[i] {
			if d < 0 || d >= n {
				steps[i].Depends = append(steps[i].Depends, "missing")
				dangling = true
			} else {
				steps[i].Depends = append(steps[i].Depends, fmt.Sprintf("s%d", d))
			}
		}
	}
	want := dangling || verifCyclic(n, dep)
	var g *ExecutionGraph
	var err error
	func() {
		defer func() {
			if r := recover(); r != nil {
				err = fmt.Errorf("PANIC: %v", r)
				g = nil
			}
		}()
		g, err = NewExecutionGraph(nil, steps...)
	}()
	got := err != nil
	bad := ""
	switch {
	case err != nil && strings.HasPrefix(err.Error(), "PANIC"):
		bad = err.Error()
	case got != want:
		bad = fmt.Sprintf("refused=%v but the relation is dangling=%v cyclic=%v", got, dangling, verifCyclic(n, dep))
	case err != nil && g != nil:
		bad = "an error was returned together with a graph"
	case err == nil && (g == nil || len(g.Nodes()) != n):
		bad = "accepted but the graph does not hold the steps"
	}
	if bad == "" && err == nil {
		// adjacency == depends: every dependency of node i is listed in to[id(i)]
		for i := 0; i < n && bad == ""; i++ {
			node := g.Nodes()[i]
			if len(g.to[node.id]) != len(dep[i]) {
				bad = fmt.Sprintf("step s%d has %d incoming edges for %d depends entries", i, len(g.to[node.id]), len(dep[i]))
				break
			}
			for k, d := range dep[i] {
				dn := g.node(g.to[node.id][k])
				if dn == nil || dn.data.Step.Name != fmt.Sprintf("s%d", d) {
					bad = fmt.Sprintf("edge %d of step s%d does not lead to s%d", k, i, d)
					break
				}
			}
		}
	}
	if bad != "" {
		s.viol++
		if s.viol <= 5 {
			fmt.Printf("VSTANDIN-VIOLATION input=n=%d depends=%v :: %s\n", n, dep, bad)
		}
	}
}

func TestVerifStandinCycle(t *testing.T) {
	st := &verifCycleStats{}
	maxAll := 4
	thorough := os.Getenv("VERIF_TIER") == "thorough"
	// every edge set including self loops on n <= 4 steps
	for n := 1; n <= maxAll; n++ {
		for mask := 0; mask < 1<<(n*n); mask++ {
			dep := make([][]int, n)
			for i := 0; i < n; i++ {
				for j := 0; j < n; j++ {
					if mask&(1<<(i*n+j)) != 0 {
						dep[i] = append(dep[i], j)
					}
				}
			}
			st.check(n, dep)
		}
	}
	// repeated depends entries (multiplicity 0..2 per ordered pair) on n <= 3 steps
	for n := 1; n <= 3; n++ {
		total := 1
		for k := 0; k < n*n; k++ {
			total *= 3
		}
		for code := 0; code < total; code++ {
			dep := make([][]int, n)
			c := code
			for i := 0; i < n; i++ {
				for j := 0; j < n; j++ {
					for m := 0; m < c%3; m++ {
						dep[i] = append(dep[i], j)
					}
					c /= 3
				}
			}
			st.check(n, dep)
		}
	}
	// a dangling name added to any one step, on top of every edge set on n <= 3 steps
	for n := 1; n <= 3; n++ {
		for mask := 0; mask < 1<<(n*n); mask++ {
			for who := 0; who < n; who++ {
				dep := make([][]int, n)
				for i := 0; i < n; i++ {
					for j := 0; j < n; j++ {
						if mask&(1<<(i*n+j)) != 0 {
							dep[i] = append(dep[i], j)
						}
					}
				}
				dep[who] = append(dep[who], -1)
				st.check(n, dep)
			}
		}
	}
	bound := "every edge set incl. self loops on <=4 steps (66066), multiplicities 0..2 on <=3 steps (19767), one dangling name on <=3 steps"
	if thorough {
		// all 2^20 loop-free edge sets on 5 steps
		n := 5
		pairs := [][2]int{}
		for i := 0; i < n; i++ {
			for j := 0; j < n; j++ {
				if i != j {
					pairs = append(pairs, [2]int{i, j})
				}
			}
		}
		for mask := 0; mask < 1<<len(pairs); mask++ {
			dep := make([][]int, n)
			for b, p := range pairs {
				if mask&(1<<b) != 0 {
					dep[p[0]] = append(dep[p[0]], p[1])
				}
			}
			st.check(n, dep)
		}
		bound += ", all 2^20 loop-free edge sets on 5 steps"
	}
	fmt.Printf("VSTANDIN cases=%d violations=%d bound=%s\n", st.cases, st.viol, bound)
}
