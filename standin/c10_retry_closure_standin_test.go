package scheduler

// Bounded stand-in for C10 (which steps a retry resets): the real NewExecutionGraphForRetry (init, setup, setupRetry,
// clearState) is executed on every acyclic dependency relation within the bound combined with every vector of
// recorded step states, and compared with an oracle written independently of the code: a step is reset exactly when
// its recorded state is failed, canceled or running, or when it is a descendant of such a step; every other step keeps
// its recorded state untouched.  The deductive part proves the walk's per-visit behaviour and that the reset set is
// closed, justified and the only thing touched; what it does not prove — that the walk visits every step — is what
// this enumeration adds.  Injected into the package with `go test -overlay`; nothing is written to the repository.

import (
	"fmt"
	"os"
	"testing"
	"time"

	"github.com/ErdemOzgen/blackdagger/internal/dag"
	"github.com/ErdemOzgen/blackdagger/internal/logger"
)

type verifRetryStats struct{ cases, viol int }

var verifRetryStatuses = []NodeStatus{NodeStatusNone, NodeStatusRunning, NodeStatusError, NodeStatusCancel, NodeStatusSuccess, NodeStatusSkipped}

// dep[i] lists the steps i depends on (all with a smaller index: acyclic by construction, but the order in which the
// nodes are handed over is permuted by perm so that "earlier in the list" carries no meaning for the code).
func (s *verifRetryStats) check(n int, dep [][]int, st []NodeStatus, perm []int) {
	s.cases++
	// oracle
	bad := make([]bool, n)
	for i := 0; i < n; i++ {
		bad[i] = st[i] == NodeStatusError || st[i] == NodeStatusCancel || st[i] == NodeStatusRunning
	}
	for changed := true; changed; {
		changed = false
		for i := 0; i < n; i++ {
			for _, d := range dep[i] {
				if bad[d] && !bad[i] {
					bad[i], changed = true, true
				}
			}
		}
	}
	nodes := make([]*Node, n)
	when := time.Unix(1700000000, 0)
	for i := 0; i < n; i++ {
		step := dag.Step{Name: fmt.Sprintf("s%d", i), Command: "true"}
		for _, d := range dep[i] {
			step.Depends = append(step.Depends, fmt.Sprintf("s%d", d))
		}
		nodes[i] = &Node{data: NodeData{Step: step, State: NodeState{Status: st[i], Log: fmt.Sprintf("log%d", i), StartedAt: when, RetryCount: i + 1, DoneCount: 1}}}
	}
	arg := make([]*Node, n)
	for i, p := range perm {
		arg[i] = nodes[p]
	}
	fin := make(chan error, 1)
	go func() {
		defer func() {
			if r := recover(); r != nil {
				fin <- fmt.Errorf("PANIC: %v", r)
			}
		}()
		_, err := NewExecutionGraphForRetry(logger.Default, arg...)
		fin <- err
	}()
	msg := ""
	select {
	case err := <-fin:
		if err != nil {
			msg = "refused: " + err.Error()
		}
	case <-time.After(20 * time.Second):
		msg = "does not return within 20 s"
	}
	for i := 0; i < n && msg == ""; i++ {
		got := nodes[i].data.State
		switch {
		case bad[i] && (got.Status != NodeStatusNone || got.Log != "" || got.RetryCount != 0 || got.DoneCount != 0 || !got.StartedAt.IsZero()):
			msg = fmt.Sprintf("step s%d has to run again but is not reset: %+v", i, got)
		case !bad[i] && (got.Status != st[i] || got.Log != fmt.Sprintf("log%d", i) || got.RetryCount != i+1 || got.DoneCount != 1 || !got.StartedAt.Equal(when)):
			msg = fmt.Sprintf("step s%d keeps its recorded result in the oracle but was changed: %+v", i, got)
		}
	}
	if msg != "" {
		s.viol++
		if s.viol <= 5 {
			fmt.Printf("VSTANDIN-VIOLATION input=n=%d depends=%v recorded=%v order=%v :: %s\n", n, dep, st, perm, msg)
		}
	}
}

func verifPerms(n int) [][]int {
	var out [][]int
	var rec func(cur []int, used int)
	rec = func(cur []int, used int) {
		if len(cur) == n {
			out = append(out, append([]int(nil), cur...))
			return
		}
		for i := 0; i < n; i++ {
			if used&(1<<i) == 0 {
				rec(append(cur, i), used|1<<i)
			}
		}
	}
	rec(nil, 0)
	return out
}

func TestVerifStandinRetryClosure(t *testing.T) {
	st := &verifRetryStats{}
	thorough := os.Getenv("VERIF_TIER") == "thorough"
	run := func(n int, statuses []NodeStatus, perms [][]int) {
		pairs := [][2]int{}
		for i := 0; i < n; i++ {
			for j := 0; j < i; j++ {
				pairs = append(pairs, [2]int{i, j})
			}
		}
		vec := make([]NodeStatus, n)
		total := 1
		for i := 0; i < n; i++ {
			total *= len(statuses)
		}
		for mask := 0; mask < 1<<len(pairs); mask++ {
			dep := make([][]int, n)
			for b, p := range pairs {
				if mask&(1<<b) != 0 {
					dep[p[0]] = append(dep[p[0]], p[1])
				}
			}
			for code := 0; code < total; code++ {
				c := code
				for i := 0; i < n; i++ {
					vec[i] = statuses[c%len(statuses)]
					c /= len(statuses)
				}
				for _, p := range perms {
					st.check(n, dep, append([]NodeStatus(nil), vec...), p)
				}
			}
		}
	}
	// every DAG on <= 3 steps x all six recorded states x every order of the node list
	for n := 1; n <= 3; n++ {
		run(n, verifRetryStatuses, verifPerms(n))
	}
	// every DAG on 4 steps x all six states (list in definition order and reversed)
	run(4, verifRetryStatuses, [][]int{{0, 1, 2, 3}, {3, 2, 1, 0}})
	bound := "every DAG on <=3 steps x 6 recorded states x every node order; every DAG on 4 steps x 6 states x 2 orders"
	four := []NodeStatus{NodeStatusSuccess, NodeStatusError, NodeStatusRunning, NodeStatusNone}
	if thorough {
		run(5, four, [][]int{{0, 1, 2, 3, 4}, {4, 3, 2, 1, 0}, {2, 0, 4, 1, 3}})
		bound += "; every DAG on 5 steps x 4 states (finished, failed, running, not started) x 3 orders"
	} else {
		run(5, []NodeStatus{NodeStatusSuccess, NodeStatusRunning}, [][]int{{0, 1, 2, 3, 4}})
		bound += "; every DAG on 5 steps x 2 states (finished, running)"
	}
	fmt.Printf("VSTANDIN cases=%d violations=%d bound=%s\n", st.cases, st.viol, bound)
}
